#!/usr/bin/env python3-vt
"""C19: every --enable-hashes selection yields a coherent library.
A case is a non-empty subset of the 16 methods; it is built with the tree's own
generator scripts (vlib.build, variant 'cfg'), a probe program is linked against
it (whole archive, so every object's references must resolve) and its transcript
is compared with a model derived from the documented sharing rules and the full
build's transcript.  Run with python3-vt (Hypothesis lives in the tooling venv)."""
import hashlib
import json
import os
import re
import subprocess
import sys
import time
from concurrent.futures import ThreadPoolExecutor

sys.path.insert(0, os.path.dirname(os.path.dirname(os.path.abspath(__file__))))
from vlib import build as vbuild  # noqa: E402
from vlib import runner  # noqa: E402

ALL = list(vbuild.ALL_HASHES)
EINVAL = 22
DEFAULT_ORDER = [('yescrypt', '$y$'), ('bcrypt', '$2b$'), ('sha512crypt', '$6$')]   # statement: strongest enabled default-capable method
FAMILIES = [('yescrypt', 'scrypt', 'gost_yescrypt'), ('descrypt', 'bigcrypt', 'bsdicrypt'), ('bcrypt', 'bcrypt_a', 'bcrypt_x', 'bcrypt_y'),
            ('md5crypt', 'sha256crypt', 'sha512crypt'), ('sunmd5', 'md5crypt')]
PROBE = os.path.join(runner.HARNESS, 'cfg_probe.c')


class ConfigFailure(Exception):
    pass


def build_and_probe(enabled, jobs=None):
    enabled = sorted(enabled)
    try:
        info = vbuild.build_variant('cfg', enabled=enabled, jobs=jobs, keep=400)
    except vbuild.BuildError as e:
        raise ConfigFailure('the library does not build with --enable-hashes=%s:\n%s' % (','.join(enabled), str(e)[-1500:]))
    exe = os.path.join(info['dir'], 'cfg_probe')
    src_hash = hashlib.sha256(open(PROBE, 'rb').read()).hexdigest()[:12]
    stamp = os.path.join(info['dir'], 'probe-' + src_hash)
    if not (os.path.exists(exe) and os.path.exists(stamp)):
        cmd = ['gcc', '-O1', '-w', '-I' + info['include'], PROBE, '-Wl,--whole-archive', info['lib'], '-Wl,--no-whole-archive', '-o', exe]
        r = subprocess.run(cmd, stdout=subprocess.PIPE, stderr=subprocess.STDOUT)
        if r.returncode != 0:
            raise ConfigFailure('a program does not link against the library built with --enable-hashes=%s:\n%s' % (
                ','.join(enabled), r.stdout.decode('utf-8', 'replace')[-1500:]))
        open(stamp, 'w').close()
    r = subprocess.run([exe], stdout=subprocess.PIPE, stderr=subprocess.STDOUT, timeout=120)
    if r.returncode != 0:
        raise ConfigFailure('the probe program crashed (status %d) with --enable-hashes=%s: %s' % (r.returncode, ','.join(enabled), r.stdout.decode('utf-8', 'replace')[-600:]))
    lines = {}
    order = []
    for ln in r.stdout.decode('utf-8', 'replace').splitlines():
        k, _, v = ln.partition(' ')
        lines[k] = v
        order.append(k)
    return lines, order


def probe_corpus():
    """(id, phrase, setting) of the H lines, parsed from the probe source (for des-ll <-> des-ls pairing)."""
    src = open(PROBE).read()
    src = src.replace('LONGP', '"a phrase longer than eight"')
    out = []
    for m in re.finditer(r'\{"([a-z0-9_-]+)",\s*((?:"(?:[^"\\]|\\.)*"\s*)+),\s*"((?:[^"\\]|\\.)*)"\},', src):
        out.append((m.group(1), m.group(2), m.group(3)))
    return out


def expected(full, order, enabled, corpus):
    """The model: what each transcript line must be for this configuration."""
    en = set(enabled)
    exp = {}
    hidx = [k for k in order if k.startswith('H:') and k.count(':') == 2]
    default = next(((m, p) for m, p in DEFAULT_ORDER if m in en), None)
    for k in order:
        kind = k.split(':')[0]
        if kind == 'H' and k.count(':') == 2:
            _, mid, idx = k.split(':')
            idx = int(idx)
            if mid == 'des-ss':
                exp[k] = full[k] if ('descrypt' in en or 'bigcrypt' in en) else 'FAIL:%d' % EINVAL
            elif mid == 'des-ls':
                exp[k] = full[k] if 'descrypt' in en else 'FAIL:%d' % EINVAL
            elif mid == 'des-ll':
                if 'bigcrypt' in en:
                    exp[k] = full[k]
                elif 'descrypt' in en:
                    # traditional truncating hash: the des-ls line with the same phrase and 2-character salt
                    _, ph, st = corpus[idx]
                    twin = [j for j, c in enumerate(corpus) if c[0] == 'des-ls' and c[1] == ph and c[2][:2] == st[:2]]
                    exp[k] = full['H:des-ls:%d' % twin[0]]
                else:
                    exp[k] = 'FAIL:%d' % EINVAL
            else:
                exp[k] = full[k] if mid in en else 'FAIL:%d' % EINVAL
        elif kind == 'G':
            mid = k[2:]
            if mid == 'NULL':
                exp[k] = full['G:' + default[0]] if default else 'FAIL:%d' % EINVAL
            elif mid == 'des':
                if 'descrypt' in en:
                    exp[k] = full[k]
                elif 'bigcrypt' in en:
                    exp[k] = full[k] + '............'   # padded so that the setting selects bigcrypt
                else:
                    exp[k] = 'FAIL:%d' % EINVAL
            else:
                exp[k] = full[k] if mid in en else 'FAIL:%d' % EINVAL
        elif kind == 'C':
            mid = k[2:]
            if mid == 'unknown':
                exp[k] = '1'
            elif mid == 'des':
                exp[k] = full[k] if ('descrypt' in en or 'bigcrypt' in en) else '1'
            else:
                exp[k] = full[k] if mid in en else '1'
        elif k == 'P':
            exp[k] = default[1] if default else 'NULL'
        elif k == 'M:CRYPT_GENSALT_IMPLEMENTS_DEFAULT_PREFIX':
            exp[k] = '1' if default else '0'
        elif k.startswith('M:') or k.startswith('H:unknown'):
            exp[k] = full[k]
    return exp


def check_config(enabled, full, order, corpus, jobs=None):
    """Returns '' or a failure message."""
    try:
        got, gorder = build_and_probe(enabled, jobs)
    except ConfigFailure as e:
        return 'C19 ' + str(e)
    exp = expected(full, order, enabled, corpus)
    for k in gorder:
        if k.startswith('X:'):
            return 'C19 --enable-hashes=%s: %s %s' % (','.join(sorted(enabled)), k, got[k])
    for k in order:
        if k not in exp:
            continue
        if got.get(k) != exp[k]:
            return 'C19 --enable-hashes=%s: line %s is "%s", expected "%s"' % (','.join(sorted(enabled)), k, got.get(k), exp[k])
    return ''


def sanity_full(full):
    """The full build itself must be coherent with the statement (default, nothing failing)."""
    for k, v in full.items():
        if k.startswith('H:') and k.count(':') == 2 and v.startswith('FAIL'):
            return 'C19 full build: corpus entry %s fails (%s)' % (k, v)
        if k.startswith('G:') and v.startswith('FAIL') and k != 'G:bcrypt_x':
            return 'C19 full build: crypt_gensalt for %s fails (%s)' % (k, v)
    if full.get('P') != '$y$':
        return 'C19 full build: preferred method is %s' % full.get('P')
    return ''


def named_groups(repo):
    conf = open(os.path.join(repo, 'lib', 'hashes.conf')).read()
    flags = set()
    for ln in conf.splitlines():
        if ln.strip() and not ln.startswith('#'):
            parts = ln.split()
            if len(parts) >= 4 and parts[3] != ':':
                flags.update(f.lower() for f in parts[3].split(','))
    groups = {}
    for g in sorted(flags) + ['all']:
        r = subprocess.run(['perl', os.path.join(repo, 'build-aux', 'scripts', 'expand-selected-hashes'),
                            os.path.join(repo, 'lib', 'hashes.conf'), g], stdout=subprocess.PIPE, stderr=subprocess.PIPE)
        if r.returncode == 0:
            en = [x for x in r.stdout.decode().strip().strip(',').split(',') if x]
            if en:
                groups[g] = en
    return groups


def classify(enabled):
    en = set(enabled)
    cl = ['size/%d' % len(en)]
    for fam in FAMILIES:
        ins = [m for m in fam if m in en]
        if ins and len(ins) < len(fam):
            cl.append('split/%s' % '+'.join(fam))
    return cl


def conf_model(repo):
    """Independent reading of lib/hashes.conf: method names and, per lower-cased flag, its members.
    STRONG is a selectable group, DEFAULT is not (configure's documentation of --enable-hashes)."""
    names, groups = [], {}
    for ln in open(os.path.join(repo, 'lib', 'hashes.conf')).read().splitlines():
        if not ln.strip() or ln.startswith('#'):
            continue
        parts = ln.split()
        if len(parts) < 4:
            continue
        names.append(parts[0])
        if parts[3] != ':':
            for f in parts[3].split(','):
                if f != 'DEFAULT':
                    groups.setdefault(f.lower(), []).append(parts[0])
    return names, groups


def expand_selection(repo, selection):
    r = subprocess.run(['perl', os.path.join(repo, 'build-aux', 'scripts', 'expand-selected-hashes'),
                        os.path.join(repo, 'lib', 'hashes.conf'), selection], stdout=subprocess.PIPE, stderr=subprocess.PIPE)
    if r.returncode != 0:
        return None
    return sorted(x for x in r.stdout.decode().strip().strip(',').split(',') if x)


def check_selection(repo, tokens, names, groups):
    """A selection is a comma list of method and group names in any order: it enables the union."""
    want = set()
    for t in tokens:
        want.update(groups[t] if t in groups else [t])
    got = expand_selection(repo, ','.join(tokens))
    if got is None:
        return 'C19 --enable-hashes=%s is refused although every word is a method or group name' % ','.join(tokens)
    if set(got) != want:
        return 'C19 --enable-hashes=%s enables {%s} but the words name {%s} (missing: %s; extra: %s)' % (
            ','.join(tokens), ','.join(got), ','.join(sorted(want)), ','.join(sorted(want - set(got))) or '-', ','.join(sorted(set(got) - want)) or '-')
    return ''


def main(tier, replay=None):
    import hypothesis
    from hypothesis import given, settings, seed as hseed, strategies as st, HealthCheck
    t0 = time.time()
    prop = 'C19'
    vseed = runner.verif_seed()
    repo = vbuild.repo_dir()
    corpus = probe_corpus()
    try:
        full, order = build_and_probe(ALL)
    except ConfigFailure as e:
        print('BUILD-ERROR property=C19 (full configuration)\n%s' % e)
        return 2
    if replay:
        kv = dict(l.strip().split('=', 1) for l in open(replay) if '=' in l and not l.startswith('#'))
        if 'selection' in kv:
            names, groups = conf_model(repo)
            msg = check_selection(repo, bytes.fromhex(kv['selection']).decode().split(','), names, groups)
            print(('REPLAY-FAIL ' + msg) if msg else 'REPLAY-PASS')
            return 1 if msg else 0
        en = bytes.fromhex(kv['enabled']).decode().split(',')
        msg = sanity_full(full) if sorted(en) == sorted(ALL) else check_config(en, full, order, corpus)
        print(('REPLAY-FAIL ' + msg) if msg else 'REPLAY-PASS')
        return 1 if msg else 0
    violations = []
    known_hits = []
    known = [k for k in runner.load_known() if k['prop'] == prop]
    classes = {}
    seen = set()
    samples = []
    evaluations = 0

    def record(en, msg):
        nonlocal evaluations
        evaluations += 1
        key = ','.join(sorted(en))
        if key != ','.join(sorted(ALL)) and key not in seen:
            seen.add(key)
            for c in classify(en):
                classes[c] = classes.get(c, 0) + 1
            if len(samples) < 12 and len(seen) % 7 == 1:
                samples.append('--enable-hashes=' + key)
        if msg:
            for k in known:
                if k['rx'].search(msg):
                    if k['text'] not in known_hits:
                        known_hits.append(k['text'])
                    return
            rdir = os.path.join(runner.REPLAYS, prop)
            os.makedirs(rdir, exist_ok=True)
            rp = os.path.join(rdir, hashlib.sha256(key.encode()).hexdigest()[:12] + '.case')
            open(rp, 'w').write('# %s\nenabled=%s\n' % (msg.splitlines()[0], key.encode().hex()))
            # confirm (deterministic rebuild from cache + probe re-run)
            if sorted(en) == sorted(ALL) or all(check_config(en, full, order, corpus) for _ in range(2)):
                violations.append((rp, msg))

    msg = sanity_full(full)
    if msg:
        record(ALL, msg)
    # fixed configurations: singletons, leave-one-out, named groups
    fixed = [[m] for m in ALL] + [[x for x in ALL if x != m] for m in ALL]
    groups = named_groups(repo)
    fixed += list(groups.values())
    # pairs (a enabled, b disabled) inside the code-sharing families
    for fam in FAMILIES:
        for a in fam:
            for b in fam:
                if a != b:
                    fixed.append([a] + [x for x in ALL if x not in fam])
                    fixed.append([x for x in fam if x != b])
    uniq = []
    for f in fixed:
        k = tuple(sorted(f))
        if k and k not in [tuple(sorted(u)) for u in uniq]:
            uniq.append(f)
    with ThreadPoolExecutor(os.cpu_count() or 4) as ex:
        res = list(ex.map(lambda en: (en, check_config(en, full, order, corpus, jobs=1)), uniq))
    for en, m in res:
        record(en, m)
    classes['fixed-configurations'] = len(uniq)
    classes['named-groups'] = len(groups)
    # random subsets with Hypothesis (shrinks towards fewer enabled methods)
    nrand = 40 if tier == 'quick' else 400
    failure = []

    @hseed(vseed)
    @settings(max_examples=nrand, database=None, deadline=None, report_multiple_bugs=False, derandomize=False,
              suppress_health_check=list(HealthCheck), phases=[hypothesis.Phase.generate, hypothesis.Phase.shrink])
    @given(st.sets(st.sampled_from(ALL), min_size=1))
    def prop_random(en):
        m = check_config(sorted(en), full, order, corpus)
        record(sorted(en), '')
        if m:
            failure[:] = [(sorted(en), m)]
            raise AssertionError(m)

    try:
        prop_random()
    except AssertionError:
        en, m = failure[0]
        record(en, m)
    classes['random-examples'] = nrand
    # selections as configure receives them: words (method and group names) in any order and multiplicity
    names, groups = conf_model(repo)
    words = names + sorted(groups)
    nsel = 300 if tier == 'quick' else 3000
    sel_failure = []
    sel_seen = set()

    @hseed(vseed + 1)
    @settings(max_examples=nsel, database=None, deadline=None, report_multiple_bugs=False, derandomize=False,
              suppress_health_check=list(HealthCheck), phases=[hypothesis.Phase.generate, hypothesis.Phase.shrink])
    @given(st.lists(st.sampled_from(words), min_size=1, max_size=5))
    def prop_selection(tokens):
        nonlocal evaluations
        evaluations += 1
        m = check_selection(repo, tokens, names, groups)
        if any(t in groups for t in tokens) and len(tokens) >= 2:
            sel_seen.add(','.join(tokens))
        if m:
            sel_failure[:] = [(list(tokens), m)]
            raise AssertionError(m)

    try:
        prop_selection()
    except AssertionError:
        tokens, m = sel_failure[0]
        rdir = os.path.join(runner.REPLAYS, prop)
        os.makedirs(rdir, exist_ok=True)
        rp = os.path.join(rdir, hashlib.sha256(('sel:' + ','.join(tokens)).encode()).hexdigest()[:12] + '.case')
        open(rp, 'w').write('# %s\nselection=%s\n' % (m.splitlines()[0], ','.join(tokens).encode().hex()))
        if all(check_selection(repo, tokens, names, groups) for _ in range(3)):
            violations.append((rp, m))
    classes['selection-strings-mixing-groups-and-names'] = len(sel_seen)
    if len(samples) < 16:
        samples.extend('--enable-hashes=' + x for x in sorted(sel_seen)[:3])
    wall = time.time() - t0
    cov = dict(evaluations=evaluations, distinct_nontrivial=len(seen),
               rule="a case is a non-empty subset of the 16 methods: all singletons, all leave-one-out sets, every named group of hashes.conf (expanded by the tree's expand-selected-hashes), "
                    "every (a enabled, b disabled) split inside the code-sharing families, and Hypothesis-drawn random subsets; in addition Hypothesis draws selection strings as configure receives them "
                    "(1-5 method and group names in any order) and the set the tree's expand-selected-hashes enables must be the union of the names and of the groups' members as an independent reading of "
                    "hashes.conf gives them; each subset is built with the tree's generator scripts and a probe transcript "
                    "(45 hashes, gensalt/checksalt per tag, NULL prefix, preferred method, crypt.h macros) is compared with the model; non-trivial = configuration other than 'all'; distinct = distinct subsets",
               samples=samples or ['(none)'], classes=dict(sorted(classes.items())), probe_lines=len(order),
               tree_fingerprint=vbuild.tree_fingerprint(repo)[:16])
    runner.write_evidence(prop, tier, vseed, 'exploration', cov,
                          ['the driver mirrors the Makefile recipes and configure.ac\'s "no descrypt forces --enable-obsolete-api=no" rule instead of running configure',
                           'enabled methods are compared with the full build\'s transcript; the full build\'s values themselves are decided by C02'], wall, len(violations))
    for t in known_hits:
        print('KNOWN-FINDING: property=%s %s' % (prop, t))
    for rp, m in violations:
        print('VIOLATION property=%s replay=%s' % (prop, rp))
        print('  ' + m[:800])
    print('C19 %s: %d configurations checked, %d distinct non-full subsets, %.1fs' % (tier, evaluations, len(seen), wall))
    return 1 if violations else 0


if __name__ == '__main__':
    tier = sys.argv[1] if len(sys.argv) > 1 else 'quick'
    rp = sys.argv[2] if len(sys.argv) > 2 else None
    sys.exit(main(tier, rp))
