#!/usr/bin/env python3
"""Check runner: builds the needed library variant and harness, runs shards,
confirms failures with the replay binary, applies KNOWN_FINDINGS, writes
evidence.  See DESIGN.md section 1.6."""
import glob
import hashlib
import json
import os
import re
import shutil
import signal
import struct
import subprocess
import sys
import time

from . import build as vbuild

VERIF = vbuild.VERIF
WORK = os.path.join(VERIF, 'work')
HARNESS = os.path.join(VERIF, 'harness')
EVIDENCE = os.environ.get('VERIF_EVIDENCE_DIR') or os.path.join(VERIF, 'evidence')  # the override is only for sensitivity runs against seeded changes
REPLAYS = os.path.join(VERIF, 'replays')
KNOWN = os.path.join(VERIF, 'KNOWN_FINDINGS.txt')

NCPU = os.cpu_count() or 4

SAN_ENV = {
    'ASAN_OPTIONS': 'exitcode=86:abort_on_error=0:detect_leaks=0:allocator_may_return_null=1:detect_stack_use_after_return=0:handle_segv=1:handle_abort=1:symbolize=1:max_malloc_fill_size=0',
    'UBSAN_OPTIONS': 'halt_on_error=1:exitcode=87:print_stacktrace=1',
    'TSAN_OPTIONS': 'halt_on_error=1:exitcode=88:second_deadlock_stack=1',
    'MSAN_OPTIONS': 'exitcode=89',
}


def splitmix64(x):
    x = (x + 0x9E3779B97F4A7C15) & 0xFFFFFFFFFFFFFFFF
    z = x
    z = ((z ^ (z >> 30)) * 0xBF58476D1CE4E5B9) & 0xFFFFFFFFFFFFFFFF
    z = ((z ^ (z >> 27)) * 0x94D049BB133111EB) & 0xFFFFFFFFFFFFFFFF
    return z ^ (z >> 31)


def derive_seed(seed, prop, phase, shard):
    h = int.from_bytes(hashlib.sha256(('%s/%s' % (prop, phase)).encode()).digest()[:8], 'big')
    return splitmix64(splitmix64(seed ^ h) + shard) or 1


def verif_seed():
    try:
        return int(os.environ.get('VERIF_SEED', '1'))
    except ValueError:
        return 1


def harness_hash():
    h = hashlib.sha256()
    for root, _, files in sorted(os.walk(HARNESS)):
        for fn in sorted(files):
            p = os.path.join(root, fn)
            h.update(p.encode())
            h.update(open(p, 'rb').read())
    return h.hexdigest()


CXX_FLAGS = {
    'asan': ('clang++', '-std=gnu++17 -g -O1 -fsanitize=address,undefined -fno-sanitize-recover=undefined -fno-omit-frame-pointer'),
    'plain': ('g++', '-std=gnu++17 -g -O1'),
    'o0': ('g++', '-std=gnu++17 -g -O1'),
    'tsan': ('clang++', '-std=gnu++17 -g -O1 -fsanitize=thread'),
    'shared': ('g++', '-std=gnu++17 -g -O1'),
    'shared-asan': ('g++', '-std=gnu++17 -g -O1 -fsanitize=address,undefined -fno-sanitize-recover=undefined -fno-omit-frame-pointer'),
    'cfg': ('g++', '-std=gnu++17 -g -O1'),
}


def build_harness(name, vinfo, rc=True, interpose=False, extra='', libs='-lcrypto -lgcrypt -ldl -lpthread', srcs=None, fuzzer=False, csrcs=None, no_variant_include=False):
    """Compile harness/<name>.cpp against a library variant.  Returns binary path."""
    variant = vinfo['variant']
    cxx, flags = CXX_FLAGS[variant]
    if fuzzer:
        flags += ' -fsanitize=fuzzer'
    key = hashlib.sha256(json.dumps([harness_hash(), vinfo['dir'], name, rc, interpose, extra, libs, flags, srcs, csrcs, no_variant_include, 5]).encode()).hexdigest()[:16]
    hdir = os.path.join(vbuild.BUILD, 'h-%s-%s-%s' % (name, 'rc' if rc else 'norc', key))
    binp = os.path.join(hdir, name)
    import fcntl
    os.makedirs(vbuild.BUILD, exist_ok=True)
    lock = open(os.path.join(vbuild.BUILD, '.lock-h-%s' % key), 'w')
    fcntl.flock(lock, fcntl.LOCK_EX)
    try:
        if os.path.exists(binp):
            os.utime(hdir)
            return binp
        if os.path.exists(hdir):
            shutil.rmtree(hdir)
        os.makedirs(hdir)
        cmd = [cxx] + flags.split() + extra.split()
        try:
            cfg = open(os.path.join(vinfo['include'], 'config.h')).read()
            m = re.search(r'^#define ENABLE_FAILURE_TOKENS (\d+)', cfg, re.M)
            cmd.append('-DVF_FAILURE_TOKENS=%s' % (m.group(1) if m else '0'))
        except OSError:
            pass
        if not rc:
            cmd.append('-DVF_NO_RC')
        gen = os.path.join(vbuild.BUILD, 'gen')
        if not os.path.exists(os.path.join(gen, 'pi_blowfish.inc')):
            os.makedirs(gen, exist_ok=True)
            import threading
            tmp = os.path.join(gen, 'pi_blowfish.inc.%d.%d.tmp' % (os.getpid(), threading.get_ident()))
            subprocess.check_call([sys.executable, os.path.join(VERIF, 'bin', 'gen_pi.py'), tmp])
            os.rename(tmp, os.path.join(gen, 'pi_blowfish.inc'))
        if no_variant_include:
            cmd += ['-I' + HARNESS, '-I' + gen]   # client code: only the released <crypt.h> from the system include path
        else:
            cmd += ['-I' + vinfo['include'], '-I' + HARNESS, '-I' + gen, '-I' + os.path.join(vinfo['repo'], 'lib')]
        for s in (srcs or [name + '.cpp']):
            cmd.append(os.path.join(HARNESS, s))
        for cs in (csrcs or []):
            # C sources that include the tree's internal headers: the variant's own compiler and flags
            co = os.path.join(hdir, os.path.basename(cs)[:-2] + '.o')
            ccmd = [vinfo['cc']] + vinfo['cflags'].replace('-fsanitize=fuzzer-no-link', '').split() + [
                '-std=gnu11', '-w', '-DHAVE_CONFIG_H', '-I' + vinfo['include'], '-I' + os.path.join(vinfo['repo'], 'lib'), '-I' + HARNESS,
                '-c', os.path.join(HARNESS, cs), '-o', co]
            r = subprocess.run(ccmd, stdout=subprocess.PIPE, stderr=subprocess.STDOUT)
            if r.returncode != 0:
                raise vbuild.BuildError('harness build failed: %s\n%s' % (' '.join(ccmd), r.stdout.decode('utf-8', 'replace')[-8000:]))
            cmd.append(co)
        if vinfo.get('lib', '').endswith('.a'):
            # whole-archive: the sanitizer runtimes define weak interceptors for crypt/crypt_r, which would
            # otherwise keep crypt-static.o from being pulled out of the archive
            cmd += ['-Wl,--whole-archive', vinfo['lib_ip'] if interpose else vinfo['lib'], '-Wl,--no-whole-archive']
        if rc:
            cmd.append('-lrapidcheck')
        cmd += libs.split()
        cmd += ['-o', binp + '.tmp']
        r = subprocess.run(cmd, stdout=subprocess.PIPE, stderr=subprocess.STDOUT)
        if r.returncode != 0:
            raise vbuild.BuildError('harness build failed: %s\n%s' % (' '.join(cmd), r.stdout.decode('utf-8', 'replace')[-8000:]))
        os.rename(binp + '.tmp', binp)
        vbuild._prune('h-%s-%s' % (name, 'rc' if rc else 'norc'), 2)
        return binp
    finally:
        fcntl.flock(lock, fcntl.LOCK_UN)
        lock.close()


def run_procs(jobs, timeout_s):
    """jobs: list of dict(cmd, env, cwd, log).  Runs all in parallel (bounded by
    NCPU).  Returns list of (returncode | 'timeout')."""
    results = [None] * len(jobs)
    running = {}
    pending = list(range(len(jobs)))
    deadline = {}
    while pending or running:
        while pending and len(running) < NCPU:
            i = pending.pop(0)
            j = jobs[i]
            logf = open(j['log'], 'wb')
            p = subprocess.Popen(j['cmd'], env=j.get('env'), cwd=j.get('cwd'), stdout=logf, stderr=subprocess.STDOUT,
                                 start_new_session=True)
            running[i] = (p, logf)
            deadline[i] = time.time() + j.get('timeout', timeout_s)
        time.sleep(0.05)
        for i in list(running):
            p, logf = running[i]
            rc = p.poll()
            if rc is not None:
                results[i] = rc
                logf.close()
                del running[i]
            elif time.time() > deadline[i]:
                try:
                    os.killpg(p.pid, signal.SIGKILL)
                except ProcessLookupError:
                    pass
                p.wait()
                results[i] = 'timeout'
                logf.close()
                del running[i]
    return results


def write_fuzz_seeds(corpus):
    """A few small valid inputs (one per entry point x setting template), matching harness/fuzz_decode.hpp."""
    n = 0
    for entry in range(8):
        for templ in range(26):
            b = bytes([entry, 0x10 + (templ & 15), templ % 3, 0, 0, 16, 0, 0, 0, templ, 10]) + b'saltSALT./' + bytes([8, 0]) + b'passw0rd' + bytes(range(16))
            open(os.path.join(corpus, 'seed-%03d' % n), 'wb').write(b)
            n += 1


def load_known():
    known = []
    if os.path.exists(KNOWN):
        for line in open(KNOWN):
            line = line.strip()
            m = re.match(r'known:\s+property=(\S+)\s+match=/(.*?)/\s+(.*)$', line)
            if m:
                known.append(dict(prop=m.group(1), rx=re.compile(m.group(2)), text=m.group(3)))
    return known


def merge_counters(dirs):
    tot = dict(evaluations=0, executed=0, nontrivial=0, distinct_by_construction=0, skipped_cost=0, excluded_known=0)
    classes = {}
    samples = []
    seen = set()
    for d in dirs:
        p = os.path.join(d, 'counters.json')
        if os.path.exists(p):
            try:
                c = json.load(open(p))
            except Exception:
                continue
            for k in tot:
                tot[k] += c.get(k, 0)
            for k, v in c.get('classes', {}).items():
                classes[k] = classes.get(k, 0) + v
            samples.append(c.get('samples', []))
        sb = os.path.join(d, 'seen.bin')
        if os.path.exists(sb):
            data = open(sb, 'rb').read()
            n = len(data) // 8
            seen.update(struct.unpack('<%dQ' % n, data[:n * 8]))
    # interleave samples from shards
    out = []
    k = 0
    while len(out) < 12 and any(samples):
        for s in samples:
            if k < len(s) and len(out) < 12:
                out.append(s[k])
        k += 1
        if k > 12:
            break
    tot['classes'] = classes
    tot['samples'] = out
    tot['distinct_seen'] = len(seen)
    return tot


class Check:
    """One property's check.  Subclasses / instances configure phases."""

    def __init__(self, prop, spec):
        self.prop = prop
        self.spec = spec

    # -- helpers ---------------------------------------------------------
    def variant(self):
        v = self.spec.get('variant', 'asan')
        return vbuild.build_variant(v)

    def binaries(self, vinfo):
        sp = self.spec
        kw = dict(interpose=sp.get('interpose', False), extra=sp.get('cxx_extra', ''),
                  libs=sp.get('libs', '-lcrypto -lgcrypt -ldl -lpthread'), csrcs=sp.get('csrcs'),
                  no_variant_include=sp.get('no_variant_include', False))
        b_rc = build_harness(sp['harness'], vinfo, rc=True, **kw)
        b_norc = build_harness(sp['harness'], vinfo, rc=False, **kw)
        return b_rc, b_norc

    def env(self):
        e = dict(os.environ)
        e.update(SAN_ENV)
        e['VF_KNOWN'] = KNOWN
        e['ASAN_SYMBOLIZER_PATH'] = shutil.which('llvm-symbolizer') or shutil.which('llvm-symbolizer-14') or ''
        e.update(self.spec.get('env', {}))
        for var, vname in self.spec.get('env_variants', {}).items():
            e[var] = vbuild.build_variant(vname)['lib']
        return e

    def replay(self, b_norc, path, tier, n=3):
        """Returns (nfail, message)."""
        nfail = 0
        msg = ''
        for _ in range(n):
            r = subprocess.run([b_norc, '--prop', self.prop, '--mode', 'replay', '--case', path, '--tier', tier,
                                '--budget-ms', str(self.spec.get('budget_ms', {}).get(tier, 60))],
                               env=self.env(), stdout=subprocess.PIPE, stderr=subprocess.STDOUT, timeout=600)
            out = r.stdout.decode('utf-8', 'replace')
            if r.returncode != 0:
                nfail += 1
                m = re.search(r'REPLAY-FAIL (.*)', out)
                if m:
                    msg = m.group(1)
                else:
                    m = re.search(r'(runtime error: .*|ERROR: \w+Sanitizer: .*|WARNING: ThreadSanitizer: .*|Assertion .* failed.*)', out)
                    msg = ('crash: ' + m.group(1)) if m else ('crash: exit %s %s' % (r.returncode, out[-300:].replace('\n', ' | ')))
        return nfail, msg


def write_evidence(prop, tier, seed, level, coverage, assumptions, wall, violations):
    os.makedirs(EVIDENCE, exist_ok=True)
    ev = dict(property_id=prop, tier=tier, seed=seed, level=level, coverage=coverage,
              assumptions=assumptions, wall_s=round(wall, 2), violations=violations)
    tmp = os.path.join(EVIDENCE, prop + '.json.tmp')
    json.dump(ev, open(tmp, 'w'), indent=1, sort_keys=False)
    os.rename(tmp, os.path.join(EVIDENCE, prop + '.json'))


def run_check(prop, spec, tier, replay_path=None):
    t0 = time.time()
    seed = verif_seed()
    chk = Check(prop, spec)
    try:
        vinfo = chk.variant()
        for vname in spec.get('env_variants', {}).values():
            vbuild.build_variant(vname)
        b_rc, b_norc = chk.binaries(vinfo)
    except vbuild.BuildError as e:
        # The tree no longer builds with the hooks enabled: report, do not claim a violation.
        print('BUILD-ERROR property=%s\n%s' % (prop, e))
        return 2
    if replay_path:
        nfail, msg = chk.replay(b_norc, replay_path, tier, 1)
        print(('REPLAY-FAIL ' + msg) if nfail else 'REPLAY-PASS')
        return 1 if nfail else 0

    known = [k for k in load_known() if k['prop'] == prop]
    wdir = os.path.join(WORK, prop, tier)
    if os.path.exists(wdir):
        shutil.rmtree(wdir)
    os.makedirs(wdir)
    violations = []   # (replay path, message)
    replayed = [0]    # confirmation replays executed (they are evaluations too)
    known_hits = []
    notes = []
    budget = spec.get('budget_ms', {}).get(tier, 60 if tier == 'quick' else 1000)

    def confirm(case_path, why):
        """Copy the case into replays/, replay 3x, classify."""
        if not os.path.exists(case_path):
            notes.append('shard failed without a case file: %s' % why)
            return
        data = open(case_path, 'rb').read()
        hid = hashlib.sha256(data).hexdigest()[:12]
        rdir = os.path.join(REPLAYS, prop)
        os.makedirs(rdir, exist_ok=True)
        rp = os.path.join(rdir, hid + '.case')
        open(rp, 'wb').write(data)
        nfail, msg = chk.replay(b_norc, rp, tier, 3)
        replayed[0] += 3
        if nfail < 3:
            notes.append('unconfirmed failure (replayed %d/3): %s %s' % (nfail, why, msg))
            os.unlink(rp)
            return
        for k in known:
            if k['rx'].search(msg):
                if k['text'] not in [h for h in known_hits]:
                    known_hits.append(k['text'])
                os.unlink(rp)
                return
        violations.append((rp, msg))

    # 1. regression replays (fixed defects must stay fixed)
    reg = sorted(glob.glob(os.path.join(REPLAYS, 'regress', prop, '*.case')))
    nreg = 0
    for rp in reg:
        nfail, msg = chk.replay(b_norc, rp, tier, 1)
        nreg += 1
        if nfail:
            nfail, msg = chk.replay(b_norc, rp, tier, 3)
            if nfail == 3:
                hit = False
                for k in known:
                    if k['rx'].search(msg):
                        known_hits.append(k['text'])
                        hit = True
                if not hit:
                    violations.append((rp, msg))

    # 2. phases
    phase_dirs = []
    phase_info = []
    for ph in spec['phases']:
        pt = ph.get(tier) or ph.get('quick')
        if pt is None or pt.get('skip'):
            continue
        nsh = pt.get('shards', NCPU)
        jobs = []
        dirs = []
        if ph['mode'] == 'fuzz':
            try:
                fb = build_harness('fuzz_api', vinfo, rc=False, fuzzer=True, interpose=spec.get('interpose', False))
            except vbuild.BuildError as e:
                print('BUILD-ERROR property=%s\n%s' % (prop, e))
                return 2
            for k in range(nsh):
                d = os.path.join(wdir, '%s-%02d' % (ph['name'], k))
                corpus = os.path.join(d, 'corpus')
                os.makedirs(corpus)
                dirs.append(d)
                if k % 2 == 1:
                    write_fuzz_seeds(corpus)
                env = chk.env()
                env.update(VF_OUT=d, VF_PROP=prop, VF_BUDGET_MS=str(pt.get('budget_ms', 40)))
                s = derive_seed(seed, prop, ph['name'], k)
                cmd = [fb, '-runs=%d' % pt.get('runs', 100000), '-seed=%d' % ((s & 0x7fffffff) or 1), '-max_len=4096', '-timeout=25',
                       '-rss_limit_mb=4000', '-artifact_prefix=%s/' % d, '-print_final_stats=1', '-max_total_time=%d' % pt.get('max_time', 120), corpus]
                jobs.append(dict(cmd=cmd, env=env, cwd=d, log=os.path.join(d, 'log.txt')))
            res = run_procs(jobs, pt.get('max_time', 120) + 120)
            nt = 0
            for k, rc in enumerate(res):
                d = dirs[k]
                if rc == 0:
                    continue
                if rc == 'timeout':
                    nt += 1
                    notes.append('fuzz worker %d hit the wall-clock limit (inconclusive)' % k)
                    continue
                fc = os.path.join(d, 'fail.case')
                arts = [a for a in os.listdir(d) if a.startswith(('crash-', 'leak-'))]
                if os.path.exists(fc):
                    confirm(fc, 'oracle failure in fuzz worker %d' % k)
                elif arts:
                    raw = open(os.path.join(d, arts[0]), 'rb').read()
                    cp = os.path.join(d, 'crash.case')
                    open(cp, 'w').write('fuzzraw=%s\n' % raw.hex())
                    if spec.get('fuzz_crashes_count', True):
                        confirm(cp, 'sanitizer report in fuzz worker %d' % k)
                    else:
                        notes.append('fuzz worker %d: sanitizer report on %s (memory-safety matter, decided by C04)' % (k, arts[0]))
                else:
                    notes.append('fuzz worker %d ended with status %s without a crash artefact (timeout/oom/slow-unit are load noise)' % (k, rc))
            phase_dirs += dirs
            phase_info.append(dict(phase=ph['name'], mode='fuzz', shards=nsh, timeouts=nt, runs_per_worker=pt.get('runs')))
            continue
        for k in range(nsh):
            d = os.path.join(wdir, '%s-%02d' % (ph['name'], k))
            os.makedirs(d)
            dirs.append(d)
            env = chk.env()
            s = derive_seed(seed, prop, ph['name'], k)
            env['RC_PARAMS'] = 'seed=%d max_success=%d max_size=%d max_discard_ratio=100' % (
                s, pt.get('cases', 100), pt.get('size', 100))
            cmd = [b_rc, '--prop', prop, '--mode', ph['mode'], '--out', d, '--tier', tier,
                   '--shard', '%d/%d' % (k, nsh), '--seed', str(s), '--budget-ms', str(budget)] + ph.get('args', [])
            jobs.append(dict(cmd=cmd, env=env, cwd=d, log=os.path.join(d, 'log.txt')))
        res = run_procs(jobs, pt.get('timeout', 1500 if tier == 'quick' else 14400))
        ntimeout = 0
        for k, rc in enumerate(res):
            d = dirs[k]
            if rc == 0:
                continue
            if rc == 'timeout':
                ntimeout += 1
                notes.append('%s shard %d hit its wall-clock limit (inconclusive, not a violation)' % (ph['name'], k))
                continue
            if rc == 3 and os.path.exists(os.path.join(d, 'fail.case')):
                confirm(os.path.join(d, 'fail.case'), 'property failure in %s shard %d' % (ph['name'], k))
            elif rc == 2:
                notes.append('%s shard %d: harness usage error, see %s' % (ph['name'], k, os.path.join(d, 'log.txt')))
                print('HARNESS-ERROR property=%s see %s' % (prop, os.path.join(d, 'log.txt')))
                return 2
            else:
                confirm(os.path.join(d, 'current.case'), 'shard %d of %s died with status %s' % (k, ph['name'], rc))
        phase_dirs += dirs
        phase_info.append(dict(phase=ph['name'], mode=ph['mode'], shards=nsh, timeouts=ntimeout,
                               cases_per_shard=pt.get('cases') if ph['mode'] == 'rc' else None))

    for d in phase_dirs:
        kp = os.path.join(d, 'known-hits.txt')
        if os.path.exists(kp):
            for t in open(kp).read().splitlines():
                if t and t not in known_hits:
                    known_hits.append(t)
    tot = merge_counters(phase_dirs)
    classes = tot.pop('classes')
    # vacuity guard
    vac = []
    for rq in spec.get('require', []):
        rx = re.compile(rq)
        if not any(rx.search(k) and v > 0 for k, v in classes.items()):
            vac.append(rq)
    distinct = tot['distinct_seen'] + tot['distinct_by_construction']
    # group classes for the evidence (top-level prefix sums + full histogram, capped)
    cov = dict(
        evaluations=tot['evaluations'] + nreg + replayed[0],
        distinct_nontrivial=distinct,
        rule=spec['rule'],
        samples=tot['samples'] or ['(no sample recorded)'],
        library_calls=tot['executed'],
        nontrivial_total=tot['nontrivial'],
        skipped_cost=tot['skipped_cost'],
        excluded_known=tot['excluded_known'],
        regression_replays=nreg,
        phases=phase_info,
        classes=dict(sorted(classes.items())[:4000]),
        notes=notes,
        known_findings=list(known_hits),
        library_variant=vinfo['variant'],
        tree_fingerprint=vinfo['fingerprint'][:16],
    )
    if spec.get('exhaustive'):
        cov['exhaustive'] = bool(spec['exhaustive'].get(tier, False)) if isinstance(spec['exhaustive'], dict) else True
        cov['exhaustive_part'] = spec.get('exhaustive_part', '')
    if vac:
        cov['vacuity'] = vac
    wall = time.time() - t0
    write_evidence(prop, tier, seed, spec.get('level', 'exploration'), cov, spec.get('assumptions', []), wall, len(violations))
    for t in known_hits:
        print('KNOWN-FINDING: property=%s %s' % (prop, t))
    shown = set()
    for rp, msg in violations:
        if rp in shown:  # several shards can shrink to the same minimal case
            continue
        shown.add(rp)
        print('VIOLATION property=%s replay=%s' % (prop, rp))
        print('  ' + msg[:600])
    for n in notes:
        print('note: ' + n)
    print('%s %s: %d cases, %d distinct non-trivial, %d library calls, %d skipped for cost, %.1fs' % (
        prop, tier, cov['evaluations'], distinct, tot['executed'], tot['skipped_cost'], wall))
    if violations:
        return 1
    if vac:
        print('VACUOUS property=%s: required classes never occurred: %s' % (prop, vac))
        return 2
    return 0
