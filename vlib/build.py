#!/usr/bin/env python3
"""Build driver: compiles libxcrypt from a source tree (default /repo, override
with VERIF_REPO) into instrumented variants, without ever running the tree's
Makefile.  See DESIGN.md section 1.1.

Usage as a module:  build_variant('asan') -> dict(dir=..., lib=..., include=...)
Usage as a script:  build.py <variant> [...]   prints the variant directory.
"""
import fcntl
import hashlib
import json
import os
import re
import shutil
import subprocess
import sys
import time
from concurrent.futures import ThreadPoolExecutor

VERIF = os.path.dirname(os.path.dirname(os.path.abspath(__file__)))
BUILD = os.path.join(VERIF, 'build')
GUARD = 'LIBXCRYPT_VERIF'

ALL_HASHES = ['bcrypt', 'bcrypt_a', 'bcrypt_x', 'bcrypt_y', 'bigcrypt',
              'bsdicrypt', 'descrypt', 'gost_yescrypt', 'md5crypt', 'nt',
              'scrypt', 'sha1crypt', 'sha256crypt', 'sha512crypt', 'sunmd5',
              'yescrypt']

SAN = '-fsanitize=address,undefined -fno-sanitize-recover=undefined -fno-omit-frame-pointer'

# name -> (cc, cflags, kind, pic)
VARIANTS = {
    'asan':   ('clang', '-O1 -g %s -fsanitize=fuzzer-no-link' % SAN, 'static', False),
    'plain':  ('gcc', '-O1 -g', 'static', False),
    'o0':     ('gcc', '-O0 -g', 'static', False),
    'tsan':   ('clang', '-O1 -g -fsanitize=thread', 'static', False),
    'msan':   ('clang', '-O1 -g -fsanitize=memory -fsanitize-memory-track-origins -fno-omit-frame-pointer', 'static', False),
    'shared': ('gcc', '-O1 -g -fPIC -DPIC', 'shared', True),
    'shared-asan': ('gcc', '-O1 -g -fPIC -DPIC -fsanitize=address,undefined -fno-sanitize-recover=undefined -fno-omit-frame-pointer', 'shared', True),
    'cfg':    ('gcc', '-O1', 'static', False),
}

INTERPOSE = ['malloc', 'calloc', 'realloc', 'free', 'mmap', 'munmap', 'arc4random_buf']


def repo_dir():
    return os.environ.get('VERIF_REPO', '/repo')


def _read(p):
    with open(p, 'rb') as f:
        return f.read()


def _fallback(repo, name):
    p = os.path.join(repo, name)
    if os.path.exists(p):
        return p
    return os.path.join('/repo', name)


def makefile_vars(repo):
    mk = _read(_fallback(repo, 'Makefile')).decode('utf-8', 'replace')
    out = {}
    for k in ('SYMVER_MIN', 'SYMVER_FLOOR', 'COMPAT_ABI'):
        m = re.search(r'^%s = (.*)$' % k, mk, re.M)
        out[k] = m.group(1).strip() if m else ''
    return out


def lib_sources(repo):
    """Files named in libcrypt_la_SOURCES of Makefile.am (both blocks)."""
    am = _read(os.path.join(repo, 'Makefile.am')).decode()
    srcs = []
    for m in re.finditer(r'^libcrypt_la_SOURCES\s*\+?=\s*((?:.*\\\n)*.*)$', am, re.M):
        for tok in m.group(1).replace('\\\n', ' ').split():
            if tok.endswith('.c') and tok not in srcs:
                srcs.append(tok)
    return srcs


def tree_fingerprint(repo):
    h = hashlib.sha256()
    files = []
    for sub in ('lib', 'build-aux/scripts'):
        d = os.path.join(repo, sub)
        for fn in sorted(os.listdir(d)):
            if fn.endswith(('.c', '.h', '.in', '.conf', '.pm', '.minver')) or sub != 'lib':
                p = os.path.join(d, fn)
                if os.path.isfile(p):
                    files.append(p)
    files.append(os.path.join(repo, 'Makefile.am'))
    files.append(_fallback(repo, 'config.h'))
    files.append(_fallback(repo, 'Makefile'))
    for p in files:
        h.update(p[len(repo):].encode() if p.startswith(repo) else p.encode())
        h.update(b'\0')
        h.update(_read(p))
        h.update(b'\0')
    return h.hexdigest()


def _run(cmd, **kw):
    r = subprocess.run(cmd, stdout=subprocess.PIPE, stderr=subprocess.PIPE, **kw)
    if r.returncode != 0:
        raise BuildError('command failed (%d): %s\n%s\n%s' % (
            r.returncode, cmd if isinstance(cmd, str) else ' '.join(cmd),
            r.stdout.decode('utf-8', 'replace')[-4000:], r.stderr.decode('utf-8', 'replace')[-6000:]))
    return r.stdout


class BuildError(Exception):
    pass


def gen_headers(repo, inc, enabled, config_over, compat_abi=None):
    os.makedirs(inc, exist_ok=True)
    scripts = os.path.join(repo, 'build-aux', 'scripts')
    mv = makefile_vars(repo)
    if compat_abi is not None:
        mv['COMPAT_ABI'] = compat_abi
    env = dict(os.environ, LC_ALL='C')
    en = ',' + ','.join(enabled) + ','
    # config.h: platform facts from the tree's configured config.h + overrides
    cfg = _read(_fallback(repo, 'config.h')).decode()
    for k, v in config_over.items():
        cfg, n = re.subn(r'^#define %s .*$' % k, '#define %s %s' % (k, v), cfg, flags=re.M)
        if n == 0:
            cfg, n = re.subn(r'^/\* #undef %s \*/$' % k, '#define %s %s' % (k, v), cfg, flags=re.M)
        if n == 0:
            cfg += '\n#define %s %s\n' % (k, v)
    with open(os.path.join(inc, 'config.h'), 'w') as f:
        f.write(cfg)
    out = _run(['perl', os.path.join(scripts, 'gen-crypt-hashes-h'),
                os.path.join(repo, 'lib', 'hashes.conf'), en], env=env)
    open(os.path.join(inc, 'crypt-hashes.h'), 'wb').write(out)
    out = _run(['perl', os.path.join(scripts, 'gen-crypt-h'),
                os.path.join(repo, 'lib', 'crypt.h.in'), os.path.join(inc, 'config.h'),
                os.path.join(repo, 'lib', 'hashes.conf'), en], env=env)
    open(os.path.join(inc, 'crypt.h'), 'wb').write(out)
    out = _run(['perl', os.path.join(scripts, 'gen-crypt-h'),
                os.path.join(repo, 'lib', 'xcrypt.h.in'), os.path.join(inc, 'config.h')], env=env)
    open(os.path.join(inc, 'xcrypt.h'), 'wb').write(out)
    sv = ['SYMVER_MIN=' + mv['SYMVER_MIN'], 'SYMVER_FLOOR=' + mv['SYMVER_FLOOR'],
          'COMPAT_ABI=' + mv['COMPAT_ABI'], os.path.join(repo, 'lib', 'libcrypt.map.in')]
    out = _run(['perl', os.path.join(scripts, 'gen-crypt-symbol-vers-h'), 'yes'] + sv, env=env)
    open(os.path.join(inc, 'crypt-symbol-vers.h'), 'wb').write(out)
    out = _run(['perl', os.path.join(scripts, 'gen-libcrypt-map')] + sv, env=env)
    open(os.path.join(inc, 'libcrypt.map'), 'wb').write(out)


def _prune(prefix, keep):
    try:
        ents = [e for e in os.listdir(BUILD) if e.startswith(prefix + '-') and
                os.path.isdir(os.path.join(BUILD, e))]
    except FileNotFoundError:
        return
    # other threads and processes build and prune concurrently: an entry may vanish between listdir and stat,
    # and an entry used within the last 15 minutes may still be in use and is never removed
    def mtime(e):
        try:
            return os.path.getmtime(os.path.join(BUILD, e))
        except OSError:
            return 0.0
    stamped = sorted(((mtime(e), e) for e in ents), reverse=True)
    now = time.time()
    for t, e in stamped[keep:]:
        if t and now - t < 900:
            continue
        shutil.rmtree(os.path.join(BUILD, e), ignore_errors=True)


def build_variant(name, enabled=None, obsolete=None, failure_tokens=None,
                  extra_cflags='', jobs=None, keep=3, quiet=True):
    """Build (or fetch from the cache) a library variant.  Returns a dict."""
    repo = repo_dir()
    base = name.split(':')[0]
    cc, cflags, kind, pic = VARIANTS[base]
    enabled = sorted(enabled) if enabled is not None else list(ALL_HASHES)
    over = {}
    compat_abi = None
    if 'descrypt' not in enabled:
        # configure.ac: "--enable-hashes=... forces --enable-obsolete-api=no" (COMPAT_ABI=no)
        obsolete = False
        compat_abi = 'no'
    if obsolete is not None:
        over['ENABLE_OBSOLETE_API'] = '1' if obsolete else '0'
    if failure_tokens is not None:
        over['ENABLE_FAILURE_TOKENS'] = '1' if failure_tokens else '0'
    cflags = (cflags + ' ' + extra_cflags).strip()
    fp = tree_fingerprint(repo)
    key = hashlib.sha256(json.dumps([fp, base, cc, cflags, kind, enabled, over, compat_abi, INTERPOSE, 5]).encode()).hexdigest()[:16]
    os.makedirs(BUILD, exist_ok=True)
    tag = base if base != 'cfg' else 'cfg'
    vdir = os.path.join(BUILD, '%s-%s' % (tag, key))
    info_p = os.path.join(vdir, 'info.json')
    lock = open(os.path.join(BUILD, '.lock-%s-%s' % (tag, key)), 'w')
    fcntl.flock(lock, fcntl.LOCK_EX)
    try:
        if os.path.exists(info_p):
            os.utime(vdir)
            info = json.load(open(info_p))
            if all(os.path.exists(info[k]) for k in ('lib',)):
                return info
        if os.path.exists(vdir):
            shutil.rmtree(vdir)
        t0 = time.time()
        inc = os.path.join(vdir, 'include')
        obj = os.path.join(vdir, 'obj')
        os.makedirs(obj)
        gen_headers(repo, inc, enabled, over, compat_abi)
        srcs = lib_sources(repo)
        if obsolete is False:
            srcs = [x for x in srcs if not x.endswith('crypt-des-obsolete.c')]
        cmds = []
        objs = []
        for s in srcs:
            o = os.path.join(obj, os.path.basename(s)[:-2] + '.o')
            objs.append(o)
            cmds.append([cc] + cflags.split() + ['-std=gnu11', '-w', '-DHAVE_CONFIG_H', '-DIN_LIBCRYPT',
                         '-D' + GUARD, '-I' + inc, '-I' + os.path.join(repo, 'lib'),
                         '-c', os.path.join(repo, s), '-o', o])
        with ThreadPoolExecutor(jobs or os.cpu_count()) as ex:
            list(ex.map(_run, cmds))
        info = dict(dir=vdir, include=inc, variant=base, cc=cc, cflags=cflags, enabled=enabled,
                    repo=repo, fingerprint=fp, objs=objs)
        if kind == 'static':
            lib = os.path.join(vdir, 'libcrypt.a')
            _run(['ar', 'rcs', lib] + objs)
            info['lib'] = lib
            # interposed copy: undefined references to the allocator, mapping and
            # entropy functions are renamed to vf_* (defined by the harness).
            ipdir = os.path.join(vdir, 'obj-ip')
            os.makedirs(ipdir)
            args = []
            for s in INTERPOSE:
                args += ['--redefine-sym', '%s=vf_%s' % (s, s)]
            ipobjs = []
            for o in objs:
                o2 = os.path.join(ipdir, os.path.basename(o))
                _run(['objcopy'] + args + [o, o2])
                ipobjs.append(o2)
            libip = os.path.join(vdir, 'libcrypt-ip.a')
            _run(['ar', 'rcs', libip] + ipobjs)
            info['lib_ip'] = libip
            shutil.rmtree(ipdir)
        else:
            lib = os.path.join(vdir, 'libcrypt.so.1')
            _run([cc] + cflags.split() + ['-shared', '-Wl,--version-script=' + os.path.join(inc, 'libcrypt.map'),
                 '-Wl,-soname,libcrypt.so.1', '-Wl,-z,defs' if 'sanitize' not in cflags else '-Wl,-z,nodefs',
                 '-o', lib] + objs)
            info['lib'] = lib
        info['build_s'] = round(time.time() - t0, 2)
        json.dump(info, open(info_p, 'w'), indent=1)
        _prune(tag, keep if base != 'cfg' else 400)
        return info
    finally:
        fcntl.flock(lock, fcntl.LOCK_UN)
        lock.close()


if __name__ == '__main__':
    for v in sys.argv[1:]:
        try:
            i = build_variant(v)
        except BuildError as e:
            print(str(e), file=sys.stderr)
            sys.exit(2)
        print(i['dir'], i.get('build_s', 'cached'))
