"""Offline setup: build every library variant and harness binary the checks need."""
import sys
from concurrent.futures import ThreadPoolExecutor

from . import build as vbuild
from . import checks, runner


def one(item):
    prop, spec = item
    if spec.get('custom'):
        return prop, 'custom'
    try:
        chk = runner.Check(prop, spec)
        vinfo = chk.variant()
        for vname in spec.get('env_variants', {}).values():
            vbuild.build_variant(vname)
        chk.binaries(vinfo)
        if any(ph['mode'] == 'fuzz' for ph in spec['phases']):
            runner.build_harness('fuzz_api', vinfo, rc=False, fuzzer=True, interpose=spec.get('interpose', False))
        return prop, 'ok'
    except vbuild.BuildError as e:
        return prop, 'FAILED: %s' % str(e)[-2000:]


def main():
    # variants first (each build is internally parallel), then harnesses in parallel
    for v in ('asan', 'plain', 'o0', 'shared', 'tsan'):
        vbuild.build_variant(v)
    vbuild.build_variant('cfg')
    bad = 0
    with ThreadPoolExecutor(8) as ex:
        for prop, st in ex.map(one, sorted(checks.CHECKS.items())):
            print(prop, st)
            if st.startswith('FAILED'):
                bad = 1
    return bad


if __name__ == '__main__':
    sys.exit(main())
