// C09: working memory and passphrase copies are erased before returning.
// Built against the -O0 library variant with interposed allocator/mapping/entropy
// references (libcrypt-ip.a); every library call runs on a dedicated, poisoned
// thread stack that is scanned afterwards.
#include <pthread.h>
#include <sys/mman.h>

#include <unordered_map>

#include "api.hpp"
#include "main.hpp"
#include "methods.hpp"
#include "prim_shim.h"
#include "shims.hpp"
#ifndef VF_NO_RC
#include "gen.hpp"
#endif

using namespace vf;
static const size_t DS = sizeof(struct crypt_data);
static const size_t STACK_SIZE = 768 * 1024;
static const unsigned char POISON = 0xA5;

// ---- dedicated stack ---------------------------------------------------------------------
static unsigned char *g_stack;
static void ensure_stack() {
  if (!g_stack) g_stack = (unsigned char *)mmap(nullptr, STACK_SIZE, PROT_READ | PROT_WRITE, MAP_PRIVATE | MAP_ANONYMOUS, -1, 0);
}
struct Thunk {
  std::function<void()> fn;
};
static void __attribute__((noinline)) call_deep(Thunk *t) { t->fn(); }
static void *thunk_main(void *p) {
  // The thread's start-up and exit code (TLS destructors, libc per-thread cleanup) runs on this stack too and uses a
  // few KiB at its top.  The library call is therefore started 32 KiB further down, so that nothing that runs after it
  // returns can overwrite what it left behind before the stack is scanned.
  char *pad = (char *)alloca(32768);
  asm volatile("" : : "r"(pad) : "memory");
  call_deep((Thunk *)p);
  asm volatile("" : : "r"(pad) : "memory");
  return nullptr;
}
static void on_poisoned_stack(std::function<void()> fn) {
  ensure_stack();
  memset(g_stack, POISON, STACK_SIZE);
  pthread_attr_t at;
  pthread_attr_init(&at);
  pthread_attr_setstack(&at, g_stack, STACK_SIZE);
  Thunk t{std::move(fn)};
  pthread_t th;
  pthread_create(&th, &at, thunk_main, &t);
  pthread_join(th, nullptr);
  pthread_attr_destroy(&at);
}

// ---- needles: windows of every encoding of a secret -------------------------------------
struct Needles {
  std::unordered_map<uint64_t, std::string> w8;                     // 8-byte window -> encoding name
  std::unordered_map<uint64_t, std::vector<std::pair<uint64_t, std::string>>> w16;  // first 8 -> (next 8, name)
  std::vector<bool> filter = std::vector<bool>(1 << 16, false);
  void add8(const Bytes &enc, const std::string &name) {
    for (size_t i = 0; i + 8 <= enc.size(); i++) {
      uint64_t v;
      memcpy(&v, enc.data() + i, 8);
      w8.emplace(v, name);
      filter[v & 0xffff] = true;
    }
  }
  void add16(const Bytes &enc, const std::string &name) {
    for (size_t i = 0; i + 16 <= enc.size(); i++) {
      uint64_t a, b;
      memcpy(&a, enc.data() + i, 8);
      memcpy(&b, enc.data() + i + 8, 8);
      w16[a].emplace_back(b, name);
      filter[a & 0xffff] = true;
    }
  }
  static Bytes swapped(const Bytes &p, size_t off, size_t w) {
    Bytes o = p.substr(0, off);
    size_t i = off;
    for (; i + w <= p.size(); i += w)
      for (size_t k = 0; k < w; k++) o.push_back(p[i + w - 1 - k]);
    return o.substr(off);
  }
  // all encodings the algorithms use for a passphrase / key / message
  void add_secret(const Bytes &p, const std::string &tag) {
    if (p.size() < 8) return;
    add8(p, tag + "raw");
    Bytes u, s1, x36, x5c;
    for (unsigned char c : p) {
      u.push_back((char)c);
      u.push_back('\0');
      s1.push_back((char)(unsigned char)(c << 1));
      x36.push_back((char)(c ^ 0x36));
      x5c.push_back((char)(c ^ 0x5c));
    }
    add16(u, tag + "UCS-2LE");
    add8(s1, tag + "DES-key(<<1)");
    add8(x36, tag + "HMAC-ipad(^0x36)");
    add8(x5c, tag + "HMAC-opad(^0x5c)");
    for (size_t off = 0; off < 4; off++) add8(swapped(p, off, 4), tag + "byte-swapped 32-bit words");
    for (size_t off = 0; off < 8; off++) add8(swapped(p, off, 8), tag + "byte-swapped 64-bit words");
  }
  // A key longer than the 64-byte HMAC block is replaced by its digest: that digest and its inner/outer pads are then
  // the form in which the algorithms (sha1crypt: SHA-1; PBKDF2 in scrypt/yescrypt: SHA-256) hold the passphrase.
  // The digest is computed with the tree's own primitive - it only has to be the value the library itself handles.
  void add_hashed_key(const Bytes &p, const std::string &tag) {
    if (p.size() <= 64) return;
    static const int ALG[] = {VFP_SHA1, VFP_SHA256};
    for (int a : ALG) {
      std::vector<unsigned char> cx(vfp_ctx_size(a));
      unsigned char out[64];
      vfp_init(a, cx.data());
      vfp_update(a, cx.data(), p.data(), p.size());
      vfp_final(a, cx.data(), out);
      Bytes d((const char *)out, vfp_digest_len(a)), x36, x5c;
      for (unsigned char c : d) {
        x36.push_back((char)(c ^ 0x36));
        x5c.push_back((char)(c ^ 0x5c));
      }
      std::string n = tag + (a == VFP_SHA1 ? "SHA-1" : "SHA-256") + "-hashed HMAC key ";
      add8(d, n + "raw");
      add8(x36, n + "ipad(^0x36)");
      add8(x5c, n + "opad(^0x5c)");
    }
  }
  // returns a description of the first hit in [p, p+n)
  std::string scan(const unsigned char *p, size_t n, bool skip_swapped = false) const {
    for (size_t i = 0; i + 8 <= n; i++) {
      uint64_t v;
      memcpy(&v, p + i, 8);
      if (!filter[v & 0xffff]) continue;
      auto it = w8.find(v);
      if (it != w8.end() && !(skip_swapped && it->second.find("byte-swapped") != std::string::npos)) return it->second + " at offset " + std::to_string(i);
      auto jt = w16.find(v);
      if (jt != w16.end() && i + 16 <= n) {
        uint64_t b;
        memcpy(&b, p + i + 8, 8);
        for (auto &pr : jt->second)
          if (pr.first == b) return pr.second + " at offset " + std::to_string(i);
      }
    }
    return "";
  }
};
static std::string scan_stack(const Needles &nd, bool skip_swapped = false) {
  // the used part: from the lowest byte that is no longer poison up to the top
  size_t lo = 0;
  while (lo < STACK_SIZE && g_stack[lo] == POISON) lo++;
  if (lo >= STACK_SIZE) return "";
  lo &= ~(size_t)15;
  std::string r = nd.scan(g_stack + lo, STACK_SIZE - lo, skip_swapped);
  if (!r.empty()) r += " (stack depth " + std::to_string(STACK_SIZE - lo) + " bytes used)";
  return r;
}

// released blocks are scanned at the moment of release
static const Needles *g_nd;
static std::string g_release_hit;
static void on_release(void *p, size_t n, char kind) {
  if (!g_nd || !g_release_hit.empty()) return;
  std::string r = g_nd->scan((const unsigned char *)p, n);
  if (!r.empty()) g_release_hit = r + " in a block of " + std::to_string(n) + " bytes being " + (kind == 'U' ? "unmapped" : kind == 'r' ? "reallocated" : "freed");
}

static bool passes_validation(const Bytes *phrase, const Bytes *setting) {
  if (!phrase || !setting) return false;
  if (phrase->size() >= 512) return false;
  if (!passwd_safe(*setting)) return false;
  return classify_tag(*setting) != M_NONE;
}

// one hashing call of a history.  entry: 0 crypt_r, 1 crypt_rn, 2 crypt_ra, 3 crypt
static Verdict c09_call(int entry, const Bytes &P, const Bytes &S, struct crypt_data *cd, void **ra, int *ras, const Needles &nd, Ctx &ctx, std::string &outcome) {
  std::string desc = std::string(entry == 0 ? "crypt_r" : entry == 1 ? "crypt_rn" : entry == 2 ? "crypt_ra" : "crypt") + "(phrase[" + std::to_string(P.size()) + "], \"" + vis(S, 80) + "\")";
  bool valid = passes_validation(&P, &S);
  // L1 prefill
  if (entry <= 1) {
    memset(cd->internal, 0x5B, sizeof cd->internal);
    memset(cd->reserved, 0x5B, sizeof cd->reserved);
    cd->initialized = 0x5B;
    memset(cd->setting, 0, sizeof cd->setting);
    memset(cd->input, 0, sizeof cd->input);
  } else if (entry == 2 && *ra && *ras >= (int)DS) {
    struct crypt_data *q = (struct crypt_data *)*ra;
    memset(q->internal, 0x5B, sizeof q->internal);
    memset(q->reserved, 0x5B, sizeof q->reserved);
    q->initialized = 0x5B;
  }
  char *ph = strdup(P.c_str()), *st = strdup(S.c_str());
  char *ret = nullptr;
  g_nd = &nd;
  g_release_hit.clear();
  shim::S().on_release = on_release;
  on_poisoned_stack([&]() {
    switch (entry) {
      case 0: ret = crypt_r(ph, st, cd); break;
      case 1: ret = crypt_rn(ph, st, cd, (int)DS); break;
      case 2: ret = crypt_ra(ph, st, ra, ras); break;
      default: ret = crypt(ph, st); break;
    }
  });
  shim::S().on_release = nullptr;
  g_nd = nullptr;
  ctx.st.executed++;
  bool ok = ret && ret[0] != '*';
  outcome = ok ? "success" : valid ? "method-failure" : "validation-failure";
  free(ph);
  free(st);
  // L1: scratch areas
  struct crypt_data *obj = entry <= 1 ? cd : entry == 2 ? (struct crypt_data *)*ra : nullptr;
  if (obj && (entry != 2 || *ras >= (int)DS)) {
    bool zero = obj->initialized == 0, same = obj->initialized == 0x5B;
    for (size_t i = 0; i < sizeof obj->internal; i++) { if (obj->internal[i]) zero = false; if (obj->internal[i] != 0x5B) same = false; }
    for (size_t i = 0; i < sizeof obj->reserved; i++) { if (obj->reserved[i]) zero = false; if (obj->reserved[i] != 0x5B) same = false; }
    if (valid && !zero) return "C09 internal/reserved/initialized are not all zero after a call that passed argument validation: " + desc;
    if (!valid && entry <= 1 && !same) return "C09 internal/reserved/initialized were modified by a call that failed argument validation: " + desc;
    // L2a: the object outside the application-owned fields
    std::string h = nd.scan((const unsigned char *)obj->output, sizeof obj->output);
    if (h.empty()) h = nd.scan((const unsigned char *)obj->reserved, (size_t)((const char *)obj + DS - obj->reserved));
    if (!h.empty()) return "C09 a copy of the passphrase (" + h + ") remains in the data object after " + desc;
  }
  // L2b: memory the library released
  if (!g_release_hit.empty()) return "C09 a copy of the passphrase (" + g_release_hit + ") during " + desc;
  // L2c: the stack region the call used
  std::string hs = scan_stack(nd);
  if (!hs.empty()) return "C09 a copy of the passphrase (" + hs + ") remains on the stack after " + desc;
  return "";
}

static Bytes secret_bytes(const Bytes &seed, size_t n) {
  // high-entropy, NUL-free, derived from the case
  Bytes o;
  uint64_t h = fnv(seed, 0x9e3779b97f4a7c15ULL);
  while (o.size() < n) {
    h = h * 6364136223846793005ULL + 1442695040888963407ULL;
    unsigned char c = (unsigned char)(h >> 33);
    if (c == 0) c = 0x6b;
    o.push_back((char)c);
  }
  return o;
}

static Verdict c09_check(const KV &c, Ctx &ctx) {
  if (c.has("prim")) {
    // L3: digest primitives erase their context when finalised; nothing of the message stays on the stack
    int prim = (int)c.geti("prim") % 11;
    size_t len = (size_t)c.geti("len") % 1200;
    Bytes m1 = secret_bytes(c.get("seed") + "a", len), m2 = secret_bytes(c.get("seed") + "b", len);
    Bytes key = secret_bytes(c.get("seed") + "k", 8 + (size_t)c.geti("keylen") % 193);
    Needles nd;
    nd.add_secret(m1, "message ");
    nd.add_secret(key, "key ");
    nd.add_hashed_key(key, "key ");
    std::string pn;
    Bytes img1, img2;
    // The stack layer applies to the primitives that promise to erase their temporaries (the SHA-256 family: tmp32,
    // pad, khash, ihash, tmp8, U, T); the other digests only promise to erase their context.  HMAC-SHA1 wipes its own
    // temporaries (tk, k_ipad, k_opad) but runs on a SHA-1 whose transform does not wipe its message schedule: for it
    // only the forms HMAC itself creates are looked for, not byte-swapped words.  Each entry form (streaming, one-shot)
    // runs on its own freshly poisoned stack: a later call would overwrite what an earlier one left behind.
    const bool stack_layer = prim == 3 || prim == 7 || prim == 8 || prim == 10;
    std::string stack_hit;
    auto note_stack = [&](const char *form) {
      if (!stack_layer || !stack_hit.empty()) return;
      std::string hs = scan_stack(nd, prim == 7);
      if (!hs.empty()) stack_hit = hs + ", " + form;
    };
    auto run = [&](const Bytes &m, Bytes &img) {
      if (prim < VFP_NDIGEST) {
        size_t cs = vfp_ctx_size(prim);
        void *cx = malloc(cs);
        memset(cx, 0x77, cs);
        unsigned char out[64];
        on_poisoned_stack([&]() {
          vfp_init(prim, cx);
          size_t half = m.size() / 3;
          vfp_update(prim, cx, m.data(), half);
          vfp_update(prim, cx, m.data() + half, m.size() - half);
          vfp_final(prim, cx, out);
        });
        note_stack("Init/Update/Final");
        img.assign((char *)cx, cs);
        free(cx);
        if (prim == VFP_SHA256) {
          // one-shot form: its context lives on the stack
          on_poisoned_stack([&]() { vfp_buf(prim, m.data(), m.size(), out); });
          note_stack("one-shot Buf");
        }
      } else if (prim == 7) {
        unsigned char out[20];
        on_poisoned_stack([&]() { vfp_hmac_sha1((const unsigned char *)m.data(), m.size(), (const unsigned char *)key.data(), key.size(), out); });
        note_stack("one-shot");
      } else if (prim == 8) {
        size_t cs = vfp_hmac256_ctx_size();
        void *cx = malloc(cs);
        memset(cx, 0x77, cs);
        unsigned char out[32];
        on_poisoned_stack([&]() { vfp_hmac256_buf(key.data(), key.size(), m.data(), m.size(), out); });
        note_stack("one-shot Buf");
        on_poisoned_stack([&]() {
          vfp_hmac256_init(cx, key.data(), key.size());
          vfp_hmac256_update(cx, m.data(), m.size());
          vfp_hmac256_final(cx, out);
        });
        note_stack("Init/Update/Final");
        img.assign((char *)cx, cs);
        free(cx);
      } else if (prim == 9) {
        size_t cs = vfp_gost_hmac_buf_size();
        void *cx = malloc(cs);
        memset(cx, 0x77, cs);
        unsigned char out[32];
        Bytes k = key.substr(0, 32 + key.size() % 33 > key.size() ? key.size() : 32 + key.size() % 33);
        if (k.size() < 32) k.resize(32, 'q');
        on_poisoned_stack([&]() { vfp_gost_hmac256((const unsigned char *)k.data(), k.size(), (const unsigned char *)m.data(), m.size(), out, cx); });
        img.assign((char *)cx, cs);
        free(cx);
      } else {
        unsigned char out[64];
        on_poisoned_stack([&]() { vfp_pbkdf2_sha256((const unsigned char *)key.data(), key.size(), (const unsigned char *)m.data(), m.size() % 100, 2, out, 48); });
        note_stack("one-shot");
      }
    };
    static const char *PN[] = {"MD4", "MD5", "SHA-1", "SHA-256", "SHA-512", "Streebog-256", "Streebog-512", "HMAC-SHA1", "HMAC-SHA256", "HMAC-Streebog-256", "PBKDF2-HMAC-SHA256"};
    pn = PN[prim];
    run(m1, img1);
    ctx.st.executed++;
    if (!stack_hit.empty()) return "C09 " + pn + " leaves a copy of its input (" + stack_hit + ") on the stack [len=" + std::to_string(len) + " keylen=" + std::to_string(key.size()) + "]";
    if (!img1.empty()) {
      std::string hc = nd.scan((const unsigned char *)img1.data(), img1.size());
      if (!hc.empty()) return "C09 " + pn + " context still holds its input after finalisation (" + hc + ") [len=" + std::to_string(len) + "]";
      run(m2, img2);
      ctx.st.executed++;
      if (img1 != img2) return "C09 " + pn + " context is not erased when finalised: two contexts that started identical and hashed different messages of length " + std::to_string(len) + " differ afterwards";
    }
    if (len >= (prim == 4 || prim == 6 ? 128u : 64u) || prim >= 7) {
      if (ctx.st.nontriv(fnv(c.serialize())) && ctx.st.samples.size() < ctx.st.sample_cap) ctx.st.sample("primitive " + pn + " len=" + std::to_string(len) + " keylen=" + std::to_string(key.size()));
      ctx.st.cls("c09-prim/" + pn);
      ctx.st.cls("c09-prim-residue/" + std::to_string(len % 64));
    }
    return "";
  }
  if (c.has("gensalt")) {
    // L4: crypt_gensalt erases the random bytes it drew
    auto &S = shim::S();
    Bytes X = secret_bytes(c.get("seed"), 256);
    Needles nd;
    nd.add8(X, "OS random bytes ");
    S.entropy_stub = true;
    S.entropy_stream = X;
    S.entropy_pos = 0;
    S.entropy_reqs.clear();
    Bytes prefix = c.get("gensalt");
    char out[CRYPT_GENSALT_OUTPUT_SIZE];
    char *r = nullptr;
    unsigned long cnt = (unsigned long)c.getu("gs_count", 0);
    int osz = (int)c.geti("gs_size", (long long)sizeof out);
    if (osz > (int)sizeof out) osz = (int)sizeof out;
    if (osz < 0) osz = 0;
    on_poisoned_stack([&]() { r = crypt_gensalt_rn(prefix.c_str(), cnt, nullptr, 0, out, osz); });
    S.entropy_stub = false;
    ctx.st.executed++;
    size_t req = 0;
    for (size_t q : S.entropy_reqs) req += q;
    // whether the call succeeds or fails, the bytes it drew must be gone when it returns
    if (req >= 8) {
      std::string hs = scan_stack(nd);
      if (!hs.empty()) return "C09 crypt_gensalt_rn(\"" + vis(prefix) + "\", " + std::to_string(cnt) + ", rbytes=NULL, output_size=" + std::to_string(osz) + ") " + (r ? "succeeds" : "fails") + " and leaves the random bytes it drew on the stack (" + hs + ")";
      ctx.st.nontriv(fnv(prefix + c.get("seed") + std::to_string(cnt) + "/" + std::to_string(osz)));
      ctx.st.cls(std::string("c09-gensalt/") + METHOD_NAME[classify_prefix(prefix)] + (r ? "/success" : "/failure"));
    }
    return "";
  }
  if (c.has("ra_erase")) {
    // L4: crypt_ra erases an undersized buffer (here: holding a passphrase copy) before reallocating it
    Bytes P = secret_bytes(c.get("seed"), 64 + (size_t)c.geti("ra_erase") % 400);
    Needles nd;
    nd.add_secret(P, "");
    void *blk = vf_malloc(P.size());
    memcpy(blk, P.data(), P.size());
    int sz = (int)P.size();
    g_nd = &nd;
    g_release_hit.clear();
    shim::S().on_release = on_release;
    char *r = crypt_ra("pw", "$1$abcdefgh$", &blk, &sz);
    shim::S().on_release = nullptr;
    g_nd = nullptr;
    ctx.st.executed++;
    vf_free(blk);
    if (!r) return "C09 internal: crypt_ra failed";
    if (!g_release_hit.empty()) return "C09 crypt_ra handed an undersized buffer to realloc without erasing it (" + g_release_hit + ")";
    ctx.st.nontriv(fnv(P));
    ctx.st.cls("c09-ra-erase");
    return "";
  }
  // history of hashing calls on one object
  int n = (int)c.geti("n");
  if (n < 1) n = 1;
  if (n > 6) n = 6;
  struct crypt_data *cd = (struct crypt_data *)malloc(DS);
  memset(cd, 0, DS);
  void *ra = nullptr;
  int ras = 0;
  Verdict v;
  Needles all;
  bool any_body = false;
  std::string hist;
  for (int i = 0; i < n && v.empty(); i++) {
    std::string k = std::to_string(i);
    int entry = (int)c.geti("e" + k) & 3;
    size_t plen = (size_t)c.geti("l" + k);
    if (plen < 8) plen = 8;
    if (plen > 600) plen = 600;
    Bytes P = secret_bytes(c.get("seed") + k, plen);
    Bytes S = c.get("s" + k);
    S = S.substr(0, S.find('\0'));
    Cost cost = decode_cost(S, P.size());
    if (passwd_safe(S) && P.size() < 512 && !affordable(cost, ctx.tier)) {
      ctx.st.skipped_cost++;
      continue;
    }
    all.add_secret(P, "call " + k + " ");  // earlier phrases must not resurface later either
    all.add_hashed_key(P, "call " + k + " ");
    std::string outcome;
    v = c09_call(entry, P, S, cd, &ra, &ras, all, ctx, outcome);
    if (v.empty()) {
      Method m = result_method(S, P.size());
      if (outcome != "validation-failure") {
        any_body = true;
        ctx.st.cls(std::string("c09/") + METHOD_NAME[m] + "/" + outcome + "/" + (plen <= 64 ? "len<=64" : plen <= 128 ? "len65-128" : plen < 512 ? "len129-511" : "len>=512"));
      } else
        ctx.st.cls("c09-validation-failure/" + std::string(plen >= 512 ? "long-phrase" : !passwd_safe(S) ? "bad-char" : "unknown-tag"));
      hist += std::string(entry == 0 ? "crypt_r" : entry == 1 ? "crypt_rn" : entry == 2 ? "crypt_ra" : "crypt") + "[" + METHOD_NAME[m] + "," + outcome + "] ";
    }
  }
  if (ra) vf_free(ra);
  free(cd);
  if (!v.empty()) return v;
  if (any_body) {
    if (ctx.st.nontriv(fnv(c.serialize())) && ctx.st.samples.size() < ctx.st.sample_cap) ctx.st.sample("history: " + hist);
  }
  return "";
}

#ifndef VF_NO_RC
static Bytes failing_in_method(Method m) {
  switch (m) {
    case M_SHA256: return "$5$rounds=999$salt";
    case M_SHA512: return "$6$rounds=0$salt";
    case M_BF_A: case M_BF_B: case M_BF_X: case M_BF_Y: return Bytes(METHOD_TAG[m]) + "03$abcdefghijklmnopqrstuu";
    case M_BSDI: return "_J9..";
    case M_SUNMD5: return "$md5$salt#x";
    case M_SHA1: return "$sha1$x$salt";
    case M_YESCRYPT: return "$y$j$$";
    case M_GOST: return "$gy$j$$";
    case M_SCRYPT: return "$7$C6";
    case M_MD5: return "$1$salt\"";
    default: return Bytes(METHOD_TAG[m]) + "?";
  }
}
static int c09_run(Ctx &ctx) {
  return run_rc_generic(ctx, "C09", c09_check, [&]() {
    KV c;
    c.set("seed", g::rbytes(8, 0));
    int kind = g::wpick({10, 6, 1, 1});
    if (kind == 1) {
      c.seti("prim", g::pick(0, 10));
      c.seti("len", g::coin(1, 3) ? g::oneof<long long>({8, 55, 56, 63, 64, 65, 111, 112, 119, 120, 127, 128, 129, 191, 192, 256, 1000}) : g::pick(8, 1100));
      c.seti("keylen", g::pick(0, 192));
      return c;
    }
    if (kind == 2) {
      static const char *PF[] = {"$y$", "$gy$", "$7$", "$2b$", "$2y$", "$2a$", "$6$", "$5$", "$sha1", "$md5", "$1$", "_", ""};
      c.set("gensalt", PF[g::pick(0, 12)]);
      int gk = g::wpick({3, 2, 2});
      if (gk == 1) c.setu("gs_count", (unsigned long long)g::oneof<int>({1, 2, 3, 12, 32, 99, 1000, 5000}));
      if (gk == 2) c.seti("gs_size", g::pick(3, 40));
      return c;
    }
    if (kind == 3) {
      c.seti("ra_erase", g::pick(0, 1000));
      return c;
    }
    int n = (int)g::pick(1, 6);
    c.seti("n", n);
    g::SOpts o;
    for (int i = 0; i < n; i++) {
      std::string k = std::to_string(i);
      c.seti("e" + k, g::wpick({3, 3, 2, 2}));
      int lk = g::wpick({4, 3, 3, 1});
      c.seti("l" + k, lk == 0 ? g::pick(8, 64) : lk == 1 ? g::pick(65, 128) : lk == 2 ? g::pick(129, 511) : g::pick(512, 600));
      Method m = g::any_method();
      int sk = g::wpick({6, 2, 1, 1});
      Bytes s = sk == 0 ? g::valid_setting(m, o).s : sk == 1 ? failing_in_method(m) : sk == 2 ? g::valid_setting(m, o).s + ":" : Bytes("$zz$unknown");
      c.set("s" + k, s);
    }
    return c;
  });
}
#else
#define c09_run nullptr
#endif

static Prop PROPS[] = {
  {"C09", c09_check, c09_run, nullptr},
};

int main(int argc, char **argv) { return vf_main(argc, argv, PROPS, sizeof PROPS / sizeof *PROPS); }
