// Independent knowledge about the 16 hashing methods, written from crypt(5),
// crypt(3), crypt_gensalt(3), the property statements and the public format
// specifications - NOT from lib/.  Used by generators, oracles and the cost
// governor.  No dependency on rapidcheck or on the library under test.
#pragma once
#include <map>
#include "core.hpp"

namespace vf {

enum Method {
  M_YESCRYPT, M_GOST, M_SCRYPT, M_BF_B, M_BF_Y, M_BF_A, M_BF_X, M_SHA512, M_SHA256,
  M_SHA1, M_SUNMD5, M_MD5, M_NT, M_BSDI, M_BIG, M_DES, M_NONE
};
static const int N_METHODS = 16;
static const char *const METHOD_NAME[] = {
  "yescrypt", "gost-yescrypt", "scrypt", "bcrypt", "bcrypt_y", "bcrypt_a", "bcrypt_x", "sha512crypt",
  "sha256crypt", "sha1crypt", "sunmd5", "md5crypt", "nt", "bsdicrypt", "bigcrypt", "descrypt", "none"};
// tag each method's settings begin with ("" for the traditional DES family)
static const char *const METHOD_TAG[] = {
  "$y$", "$gy$", "$7$", "$2b$", "$2y$", "$2a$", "$2x$", "$6$", "$5$", "$sha1", "$md5", "$1$", "$3$", "_", "", "", ""};
// hashes.conf name (for --enable-hashes / C19)
static const char *const METHOD_CONF[] = {
  "yescrypt", "gost_yescrypt", "scrypt", "bcrypt", "bcrypt_y", "bcrypt_a", "bcrypt_x", "sha512crypt",
  "sha256crypt", "sha1crypt", "sunmd5", "md5crypt", "nt", "bsdicrypt", "bigcrypt", "descrypt", ""};
// Strong set, from the statement of C18 (NOT from hashes.conf).
inline bool method_strong(Method m) {
  return m == M_YESCRYPT || m == M_GOST || m == M_SCRYPT || m == M_BF_B || m == M_BF_Y || m == M_BF_A || m == M_SHA512;
}

static const char A64[] = "./0123456789ABCDEFGHIJKLMNOPQRSTUVWXYZabcdefghijklmnopqrstuvwxyz";  // crypt base-64
static const char BF64[] = "./ABCDEFGHIJKLMNOPQRSTUVWXYZabcdefghijklmnopqrstuvwxyz0123456789";  // bcrypt base-64

inline int a64val(unsigned char c) {
  if (c >= '.' && c <= '9') return c - '.';
  if (c >= 'A' && c <= 'Z') return c - 'A' + 12;
  if (c >= 'a' && c <= 'z') return c - 'a' + 38;
  return -1;
}
inline int bf64val(unsigned char c) {
  if (c == '.') return 0;
  if (c == '/') return 1;
  if (c >= 'A' && c <= 'Z') return c - 'A' + 2;
  if (c >= 'a' && c <= 'z') return c - 'a' + 28;
  if (c >= '0' && c <= '9') return c - '0' + 54;
  return -1;
}
inline bool is_a64(unsigned char c) { return a64val(c) >= 0; }
inline bool all_a64(const Bytes &s) {
  for (unsigned char c : s)
    if (!is_a64(c)) return false;
  return true;
}
// passwd(5)-safe per crypt(5): printable ASCII, no whitespace, none of : ; * ! backslash
inline bool passwd_safe_char(unsigned char c) {
  return c > 0x20 && c < 0x7f && c != ':' && c != ';' && c != '*' && c != '!' && c != '\\';
}
inline bool passwd_safe(const Bytes &s) {
  for (unsigned char c : s)
    if (!passwd_safe_char(c)) return false;
  return true;
}
inline bool starts(const Bytes &s, const char *p) { return s.compare(0, strlen(p), p) == 0; }

// ---- C18 classifier ------------------------------------------------------
enum { CS_OK = 0, CS_INVALID = 1, CS_DISABLED = 2, CS_LEGACY = 3, CS_TOO_CHEAP = 4 };

// Which method does this (clean) string select?  Longest documented tag first.
inline Method classify_tag(const Bytes &s) {
  if (starts(s, "$sha1")) return M_SHA1;
  if (starts(s, "$md5")) return M_SUNMD5;
  if (starts(s, "$gy$")) return M_GOST;
  if (starts(s, "$2a$")) return M_BF_A;
  if (starts(s, "$2b$")) return M_BF_B;
  if (starts(s, "$2x$")) return M_BF_X;
  if (starts(s, "$2y$")) return M_BF_Y;
  if (starts(s, "$y$")) return M_YESCRYPT;
  if (starts(s, "$7$")) return M_SCRYPT;
  if (starts(s, "$6$")) return M_SHA512;
  if (starts(s, "$5$")) return M_SHA256;
  if (starts(s, "$1$")) return M_MD5;
  if (starts(s, "$3$")) return M_NT;
  if (starts(s, "_")) return M_BSDI;
  if (s.size() >= 2 && is_a64((unsigned char)s[0]) && is_a64((unsigned char)s[1])) return M_DES;  // DES family
  return M_NONE;
}
// enabled: bitmask over Method (default all)
inline int checksalt_model(const Bytes *s, unsigned enabled = 0xffff) {
  if (!s || s->empty() || !passwd_safe(*s)) return CS_INVALID;
  Method m = classify_tag(*s);
  if (m == M_NONE) return CS_INVALID;
  if (m == M_DES) {
    if (!(enabled & ((1u << M_DES) | (1u << M_BIG)))) return CS_INVALID;
    return CS_LEGACY;
  }
  if (!(enabled & (1u << m))) return CS_INVALID;
  return method_strong(m) ? CS_OK : CS_LEGACY;
}
// gensalt's prefix selection: "" also selects the DES family
inline Method classify_prefix(const Bytes &s) {
  if (s.empty()) return M_DES;
  return classify_tag(s);
}

// Effective DES-family method: crypt(5): bigcrypt applies to phrases longer
// than 8 when the setting is longer than a descrypt hash (13 chars).
inline Method des_effective(size_t setting_len, size_t phrase_len) {
  if (phrase_len > 8 && setting_len > 13) return M_BIG;
  return M_DES;
}

// ---- result splitter: (setting part incl. separators, digest part) ---------
struct Split {
  bool ok = false;
  Bytes setting, digest;
};
inline Split split_hash(Method m, const Bytes &h) {
  Split s;
  switch (m) {
    case M_DES:
    case M_BIG:
      if (h.size() < 13) return s;
      s.setting = h.substr(0, 2);
      s.digest = h.substr(2);
      break;
    case M_BSDI:
      if (h.size() != 20) return s;
      s.setting = h.substr(0, 9);
      s.digest = h.substr(9);
      break;
    case M_BF_A: case M_BF_B: case M_BF_X: case M_BF_Y:
      if (h.size() != 60) return s;
      s.setting = h.substr(0, 29);
      s.digest = h.substr(29);
      break;
    default: {
      size_t p = h.rfind('$');
      if (p == Bytes::npos) return s;
      s.setting = h.substr(0, p + 1);
      s.digest = h.substr(p + 1);
    }
  }
  s.ok = true;
  return s;
}
inline const char *digest_alphabet(Method m) {
  switch (m) {
    case M_NT: return "0123456789abcdef";
    case M_BF_A: case M_BF_B: case M_BF_X: case M_BF_Y: return BF64;
    default: return A64;
  }
}
inline size_t digest_len(Method m) {
  switch (m) {
    case M_DES: return 11;
    case M_BSDI: return 11;
    case M_MD5: case M_SUNMD5: return 22;
    case M_SHA256: return 43;
    case M_SHA512: return 86;
    case M_SHA1: return 28;
    case M_NT: return 32;
    case M_BF_A: case M_BF_B: case M_BF_X: case M_BF_Y: return 31;
    case M_SCRYPT: case M_YESCRYPT: case M_GOST: return 43;
    default: return 0;  // bigcrypt: 11*n
  }
}

// ---- yescrypt variable-length number codec (yescrypt PARAMETERS spec) ------
struct VarRange { int lo, hi, nchars; };
static const VarRange VARR[] = {{0, 47, 1}, {48, 55, 2}, {56, 59, 3}, {60, 61, 4}, {62, 62, 5}, {63, 63, 6}};
// decode at s[pos]; returns false on a non-alphabet character
inline bool yvar_decode(const Bytes &s, size_t &pos, uint64_t min, uint64_t &out) {
  if (pos >= s.size()) return false;
  int c = a64val((unsigned char)s[pos]);
  if (c < 0) return false;
  uint64_t base = min;
  for (const VarRange &r : VARR) {
    uint64_t span = 1;
    for (int i = 1; i < r.nchars; i++) span *= 64;
    if (c <= r.hi) {
      uint64_t v = base + (uint64_t)(c - r.lo) * span;
      pos++;
      for (int i = 1; i < r.nchars; i++) {
        if (pos >= s.size()) return false;
        int d = a64val((unsigned char)s[pos]);
        if (d < 0) return false;
        span /= 64;
        v += (uint64_t)d * span;
        pos++;
      }
      out = v & 0xffffffffULL;
      return true;
    }
    base += (uint64_t)(r.hi - r.lo + 1) * span;
  }
  return false;
}
inline Bytes yvar_encode(uint64_t v, uint64_t min) {
  Bytes o;
  if (v < min) return o;
  v -= min;
  for (const VarRange &r : VARR) {
    uint64_t span = 1;
    for (int i = 1; i < r.nchars; i++) span *= 64;
    uint64_t cnt = (uint64_t)(r.hi - r.lo + 1) * span;
    if (v < cnt) {
      o.push_back(A64[r.lo + v / span]);
      v %= span;
      for (int i = 1; i < r.nchars; i++) {
        span /= 64;
        o.push_back(A64[(v / span) & 63]);
        v %= span ? span : 1;
      }
      return o;
    }
    v -= cnt;
  }
  return Bytes();
}
// little-endian 6-bit groups (yescrypt/scrypt encode64)
inline Bytes b64le_encode(const Bytes &src) {
  Bytes o;
  size_t i = 0;
  while (i < src.size()) {
    uint32_t v = 0;
    int bits = 0;
    while (bits < 24 && i < src.size()) {
      v |= (uint32_t)(unsigned char)src[i++] << bits;
      bits += 8;
    }
    for (int b = 0; b < bits; b += 6) {
      o.push_back(A64[v & 63]);
      v >>= 6;
    }
  }
  return o;
}
// strict decode; returns false if not canonical
inline bool b64le_decode(const Bytes &s, Bytes &out) {
  out.clear();
  size_t i = 0;
  while (i < s.size()) {
    uint32_t v = 0;
    int bits = 0;
    while (bits < 24 && i < s.size()) {
      int c = a64val((unsigned char)s[i]);
      if (c < 0) return false;
      v |= (uint32_t)c << bits;
      bits += 6;
      i++;
    }
    if (bits < 12) return false;
    while (bits >= 8) {
      out.push_back((char)(v & 0xff));
      v >>= 8;
      bits -= 8;
    }
    if (v) return false;
  }
  return true;
}
inline Bytes fixed30_encode(uint32_t v) {
  Bytes o;
  for (int i = 0; i < 5; i++) {
    o.push_back(A64[v & 63]);
    v >>= 6;
  }
  return o;
}

// ---- decoded cost parameters ------------------------------------------------
struct Cost {
  Method m = M_NONE;
  bool parsed = false;     // the cost field could be read
  double units = 0;        // abstract work units ~ microseconds under ASan at phrase length ~ 16
  uint64_t rounds = 0;     // linear-cost methods: iteration count that will be applied
  uint64_t N = 0, r = 0, p = 1, t = 0, g = 0, nrom = 0, flags = 0;  // (ye)scrypt
  uint64_t mem = 0;        // bytes of working memory requested
  int log2cost = 0;        // bcrypt
  bool has_rounds_field = false;
};

// Parse the cost-relevant part of a setting.  Over-approximates: when in doubt
// report a large cost so that the governor skips the call.
inline Cost decode_cost(const Bytes &s, size_t phrase_len = 16) {
  Cost c;
  c.m = classify_tag(s);
  double plen = 1.0 + (double)phrase_len / 64.0;
  auto parse_ul = [](const Bytes &str, size_t pos, size_t &end) -> unsigned long long {
    unsigned long long v = 0;
    size_t i = pos;
    bool ovf = false;
    while (i < str.size() && str[i] >= '0' && str[i] <= '9') {
      if (v > (~0ULL - 9) / 10) ovf = true;
      v = v * 10 + (unsigned)(str[i] - '0');
      i++;
    }
    end = i;
    return ovf ? ~0ULL : v;
  };
  switch (c.m) {
    case M_DES: case M_BIG:
      c.parsed = true; c.rounds = 25; c.units = 20.0 * (1 + phrase_len / 8);
      break;
    case M_BSDI: {
      if (s.size() < 9) { c.parsed = true; c.units = 1; break; }
      uint64_t cnt = 0;
      bool ok = true;
      for (int i = 1; i < 5; i++) {
        int v = a64val((unsigned char)s[i]);
        if (v < 0) ok = false; else cnt |= (uint64_t)v << ((i - 1) * 6);
      }
      c.parsed = ok; c.rounds = cnt ? cnt : 1; c.units = 1.0 * (double)c.rounds + 2.0 * phrase_len;
      break;
    }
    case M_MD5: c.parsed = true; c.rounds = 1000; c.units = 600 * plen; break;
    case M_NT: c.parsed = true; c.rounds = 1; c.units = 5; break;
    case M_SHA256: case M_SHA512: {
      c.parsed = true; c.rounds = 5000;
      if (s.compare(3, 7, "rounds=") == 0) {
        size_t e;
        unsigned long long v = parse_ul(s, 10, e);
        c.has_rounds_field = true;
        c.rounds = v;
      }
      c.units = 2.6 * (double)c.rounds * plen * (1.0 + phrase_len / 100.0) + 100;
      break;
    }
    case M_SHA1: {
      // $sha1$<n>$ - strtoul semantics are lenient (sign, leading zeros, blanks
      // are excluded by the character filter): over-approximate
      size_t pos = 6;
      if (s.size() < 6) { c.parsed = true; c.units = 1; break; }
      bool neg = false;
      if (pos < s.size() && (s[pos] == '+' || s[pos] == '-')) { neg = s[pos] == '-'; pos++; }
      size_t e;
      unsigned long long v = parse_ul(s, pos, e);
      if (neg && v) v = ~0ULL;
      c.parsed = true; c.rounds = v; c.units = 1.6 * (double)v * plen + 20;
      break;
    }
    case M_SUNMD5: {
      c.parsed = true; c.rounds = 4096;
      if (s.size() > 5 && s.compare(5, 7, "rounds=") == 0) {
        size_t e;
        unsigned long long v = parse_ul(s, 12, e);
        c.has_rounds_field = true;
        c.rounds = (v > 0xffffffffULL) ? v : ((4096 + v) & 0xffffffffULL);
        if (v > 0xffffffffULL - 4096) c.rounds = v;  // wraps in a 32-bit implementation; treat as huge
      }
      c.units = 3.3 * (double)c.rounds + 50;
      break;
    }
    case M_BF_A: case M_BF_B: case M_BF_X: case M_BF_Y: {
      c.parsed = true;
      if (s.size() < 7 || s[4] < '0' || s[4] > '9' || s[5] < '0' || s[5] > '9') { c.units = 1; break; }
      c.log2cost = (s[4] - '0') * 10 + (s[5] - '0');
      if (c.log2cost > 31) { c.units = 1; break; }
      c.rounds = 1ULL << c.log2cost;
      c.units = 230.0 * (double)c.rounds + 600;
      break;
    }
    case M_SCRYPT: {
      c.parsed = true;
      if (s.size() < 14) { c.units = 1; break; }
      int nl = a64val((unsigned char)s[3]);
      if (nl < 1) { c.units = 1; break; }
      c.N = 1ULL << nl;
      uint64_t r = 0, p = 0;
      bool ok = true;
      for (int i = 0; i < 5; i++) {
        int v = a64val((unsigned char)s[4 + i]), w = a64val((unsigned char)s[9 + i]);
        if (v < 0 || w < 0) { ok = false; break; }
        r |= (uint64_t)v << (6 * i);
        p |= (uint64_t)w << (6 * i);
      }
      if (!ok) { c.units = 1; break; }
      c.r = r; c.p = p; c.flags = 0;
      break;
    }
    case M_YESCRYPT: case M_GOST: {
      c.parsed = true;
      size_t pos = (c.m == M_GOST) ? 4 : 3;
      uint64_t flavor, nl, r, have = 0, p = 1, t = 0, g = 0, nr = 0;
      if (!yvar_decode(s, pos, 0, flavor) || !yvar_decode(s, pos, 1, nl) || !yvar_decode(s, pos, 1, r)) { c.units = 1; break; }
      if (nl > 63) { c.units = 1; break; }
      if (pos < s.size() && s[pos] != '$') {
        if (!yvar_decode(s, pos, 1, have)) { c.units = 1; break; }
        if ((have & 1) && !yvar_decode(s, pos, 2, p)) { c.units = 1; break; }
        if ((have & 2) && !yvar_decode(s, pos, 1, t)) { c.units = 1; break; }
        if ((have & 4) && !yvar_decode(s, pos, 1, g)) { c.units = 1; break; }
        if ((have & 8) && !yvar_decode(s, pos, 1, nr)) { c.units = 1; break; }
      }
      c.N = 1ULL << nl; c.r = r; c.p = p; c.t = t; c.g = g; c.nrom = nr;
      c.flags = flavor < 2 ? flavor : 2 + ((flavor - 2) << 2);
      break;
    }
    default: c.parsed = true; c.units = 1; break;
  }
  if (c.m == M_SCRYPT || c.m == M_YESCRYPT || c.m == M_GOST) {
    if (c.N && c.units == 0) {
      long double blocks = (long double)c.N * (long double)c.r;  // 128-byte blocks
      long double mem = 128.0L * blocks + 128.0L * (long double)c.r * (long double)c.p;
      c.mem = mem > 1e18L ? (uint64_t)1e18 : (uint64_t)mem;
      bool rw = (c.flags & 2) != 0;
      long double passes = 2.0L + (long double)c.t * 1.0L;
      long double work = blocks * passes * (rw ? 1.0L : (long double)c.p) + (long double)c.r * (long double)c.p;
      // measured under ASan: N=4096,r=32 (16 MiB) ~ 33 ms -> ~0.25 us per block-pass
      long double u = work * 0.13L + 300;
      c.units = u > 1e18L ? 1e18 : (double)u;
    }
  }
  return c;
}

// per-tier governor: returns true when the call is affordable
inline bool affordable(const Cost &c, const Tier &t, uint64_t mem_cap = 0) {
  if (mem_cap == 0) mem_cap = t.thorough ? (256ULL << 20) : (48ULL << 20);
  if (c.mem > mem_cap) return false;
  return c.units <= (double)t.budget_ms * 1000.0;
}

// The governor with a small per-process quota of over-budget calls (up to 12 times the budget) per method: settings
// of the cost real deployments use (sha512crypt with a six-digit rounds field, sunmd5's cheapest generated setting)
// are then exercised a few times per shard even in the quick tier instead of never.
inline bool affordable_q(const Cost &c, const Tier &t, int key) {
  if (affordable(c, t)) return true;
  static std::map<int, int> used;
  Cost r = c;
  r.units /= 12;
  if (!affordable(r, t)) return false;
  if (used[key] >= (t.thorough ? 12 : 3)) return false;
  used[key]++;
  return true;
}

// ---- result grammars (C06), hand-written matchers ---------------------------
inline bool all_in(const Bytes &s, const char *alphabet) {
  for (unsigned char c : s)
    if (!c || !strchr(alphabet, c)) return false;
  return true;
}
// returns "" when h has the documented shape for m; else a reason
inline std::string shape_check(Method m, const Bytes &h) {
  auto fail = [&](const char *w) { return std::string(w) + " [" + METHOD_NAME[m] + "] " + vis(h, 200); };
  switch (m) {
    case M_DES:
      if (h.size() != 13 || !all_in(h, A64)) return fail("descrypt: not 13 base-64 chars");
      return "";
    case M_BIG:
      if (h.size() < 13 || (h.size() - 2) % 11 != 0 || (h.size() - 2) / 11 > 16 || !all_in(h, A64)) return fail("bigcrypt: not 2+11n base-64 chars");
      return "";
    case M_BSDI:
      if (h.size() != 20 || h[0] != '_' || !all_in(h.substr(1), A64)) return fail("bsdicrypt: not _ + 19 base-64 chars");
      return "";
    case M_MD5: {
      if (!starts(h, "$1$")) return fail("md5crypt: tag");
      size_t p = h.find('$', 3);
      if (p == Bytes::npos || p - 3 > 8) return fail("md5crypt: salt field");
      Bytes d = h.substr(p + 1);
      if (d.size() != 22 || !all_in(d, A64)) return fail("md5crypt: digest not 22 base-64 chars");
      return "";
    }
    case M_SHA256: case M_SHA512: {
      const char *tag = m == M_SHA256 ? "$5$" : "$6$";
      size_t dl = m == M_SHA256 ? 43 : 86;
      if (!starts(h, tag)) return fail("sha2crypt: tag");
      size_t pos = 3;
      if (h.compare(pos, 7, "rounds=") == 0) {
        size_t q = pos + 7;
        if (q >= h.size() || h[q] < '1' || h[q] > '9') return fail("sha2crypt: rounds spelling");
        size_t e = q;
        while (e < h.size() && h[e] >= '0' && h[e] <= '9') e++;
        if (e - q < 4 || e - q > 9 || e >= h.size() || h[e] != '$') return fail("sha2crypt: rounds field");
        pos = e + 1;
      }
      size_t p = h.find('$', pos);
      if (p == Bytes::npos || p - pos > 16) return fail("sha2crypt: salt field");
      Bytes d = h.substr(p + 1);
      if (d.size() != dl || !all_in(d, A64)) return fail("sha2crypt: digest length/alphabet");
      return "";
    }
    case M_SHA1: {
      if (!starts(h, "$sha1$")) return fail("sha1crypt: tag");
      size_t q = 6, e = q;
      while (e < h.size() && h[e] >= '0' && h[e] <= '9') e++;
      if (e == q || e >= h.size() || h[e] != '$') return fail("sha1crypt: iterations field");
      size_t p = h.find('$', e + 1);
      if (p == Bytes::npos || p == e + 1 || !all_in(h.substr(e + 1, p - e - 1), A64)) return fail("sha1crypt: salt field");
      Bytes d = h.substr(p + 1);
      if (d.size() != 28 || !all_in(d, A64)) return fail("sha1crypt: digest not 28 base-64 chars");
      return "";
    }
    case M_SUNMD5: {
      if (!starts(h, "$md5") || h.size() < 5 || (h[4] != '$' && h[4] != ',')) return fail("sunmd5: tag");
      size_t pos = 5;
      if (h.compare(pos, 7, "rounds=") == 0) {
        size_t q = pos + 7;
        if (q >= h.size() || h[q] < '1' || h[q] > '9') return fail("sunmd5: rounds spelling");
        size_t e = q;
        while (e < h.size() && h[e] >= '0' && h[e] <= '9') e++;
        if (e >= h.size() || h[e] != '$') return fail("sunmd5: rounds field");
        pos = e + 1;
      }
      size_t e = pos;
      while (e < h.size() && is_a64((unsigned char)h[e])) e++;
      // one or two '$', then 22 digest chars
      size_t d = e;
      int dollars = 0;
      while (d < h.size() && h[d] == '$' && dollars < 2) { d++; dollars++; }
      if (dollars < 1) return fail("sunmd5: missing '$' before digest");
      Bytes dg = h.substr(d);
      if (dg.size() != 22 || !all_in(dg, A64)) return fail("sunmd5: digest not 22 base-64 chars");
      return "";
    }
    case M_NT: {
      if (!starts(h, "$3$$")) return fail("nt: tag");
      Bytes d = h.substr(4);
      if (d.size() != 32 || !all_in(d, "0123456789abcdef")) return fail("nt: digest not 32 lower-case hex");
      return "";
    }
    case M_BF_A: case M_BF_B: case M_BF_X: case M_BF_Y: {
      if (h.size() != 60 || !starts(h, METHOD_TAG[m])) return fail("bcrypt: not 60 chars with tag");
      if (h[4] < '0' || h[4] > '3' || h[5] < '0' || h[5] > '9' || h[6] != '$') return fail("bcrypt: cost field");
      if (!all_in(h.substr(7), BF64)) return fail("bcrypt: alphabet");
      if (!strchr(".Oeu", h[28])) return fail("bcrypt: 22nd salt char not canonical");
      return "";
    }
    case M_SCRYPT: {
      if (!starts(h, "$7$") || h.size() < 14 + 1 + 43) return fail("scrypt: tag/length");
      if (!all_in(h.substr(3, 11), A64)) return fail("scrypt: parameter field");
      size_t p = h.rfind('$');
      if (p < 14) return fail("scrypt: missing '$' before digest");
      // the implementation documents that a '$' inside the salt may be followed by arbitrary (passwd-safe) text,
      // which is then carried in the result: only passwd-safety is required of the salt region
      for (size_t i = 14; i < p; i++)
        if (!passwd_safe_char((unsigned char)h[i])) return fail("scrypt: salt alphabet");
      Bytes d = h.substr(p + 1);
      if (d.size() != 43 || !all_in(d, A64)) return fail("scrypt: digest not 43 base-64 chars");
      return "";
    }
    case M_YESCRYPT: case M_GOST: {
      const char *tag = METHOD_TAG[m];
      if (!starts(h, tag)) return fail("yescrypt: tag");
      size_t pos = strlen(tag);
      size_t p1 = h.find('$', pos);
      if (p1 == Bytes::npos || p1 == pos || !all_in(h.substr(pos, p1 - pos), A64)) return fail("yescrypt: parameter field");
      size_t p2 = h.find('$', p1 + 1);
      if (p2 == Bytes::npos || p2 - p1 - 1 > 86 || !all_in(h.substr(p1 + 1, p2 - p1 - 1), A64)) return fail("yescrypt: salt field");
      Bytes d = h.substr(p2 + 1);
      if (d.size() != 43 || !all_in(d, A64)) return fail("yescrypt: digest not 43 base-64 chars");
      return "";
    }
    default: return fail("no method");
  }
}

// Method that a successful result of crypt(P, S) must have, per crypt(5)
inline Method result_method(const Bytes &setting, size_t phrase_len) {
  Method m = classify_tag(setting);
  if (m == M_DES) return des_effective(setting.size(), phrase_len);
  return m;
}

// ---- C03 significance model (from crypt(5), not from the code) -----------------
// Returns false when nothing may be asserted for this phrase (documented quirk).
inline bool sig_of(Method tagm, size_t setting_len, const Bytes &P, Bytes &sig) {
  sig.clear();
  auto proj7 = [](const Bytes &p, size_t n) {
    Bytes o;
    for (size_t i = 0; i < n; i++) o.push_back(i < p.size() ? (char)(p[i] & 0x7f) : '\0');
    return o;
  };
  switch (tagm) {
    case M_DES: case M_BIG: {
      if (setting_len <= 13) {
        sig = proj7(P, 8);
      } else {
        size_t n = P.size() > 128 ? 128 : P.size();
        size_t nseg = (n + 7) / 8;
        if (nseg < 1) nseg = 1;
        sig = std::to_string(nseg) + ":" + proj7(P, 8 * nseg);
      }
      return true;
    }
    case M_BSDI: {
      size_t nb = (P.size() + 7) / 8;
      if (nb < 1) nb = 1;
      sig = std::to_string(nb) + ":" + proj7(P, 8 * nb);
      return true;
    }
    case M_BF_X:
      for (unsigned char c : P)
        if (c >= 0x80) return false;  // documented $2x$ sign-extension collisions
      /* fallthrough */
    case M_BF_A: case M_BF_B: case M_BF_Y: {
      Bytes k = P + Bytes(1, '\0');
      for (size_t i = 0; i < 72; i++) sig.push_back(k[i % k.size()]);
      return true;
    }
    case M_NONE: return false;
    default: sig = P; return true;
  }
}

// Positions of S whose change must change the canonical setting echoed in the result.
struct Window {
  size_t salt_lo = 0, salt_len = 0;  // documented salt window
  const char *salt_alpha = A64;
  std::vector<size_t> cost_pos;      // positions of cost characters that may be changed to `cost_alpha`
  const char *cost_alpha = "0123456789";
};
inline Window salt_window(const Bytes &S) {
  Window w;
  Method m = classify_tag(S);
  auto run_until_dollar = [&](size_t pos, size_t maxlen) {
    size_t e = S.find('$', pos);
    if (e == Bytes::npos) e = S.size();
    size_t n = e - pos;
    return n > maxlen ? maxlen : n;
  };
  switch (m) {
    case M_DES: case M_BIG: w.salt_lo = 0; w.salt_len = 2; break;
    case M_BSDI:
      if (S.size() >= 9) { w.salt_lo = 5; w.salt_len = 4; w.cost_pos = {1, 2, 3, 4}; w.cost_alpha = A64; }
      break;
    case M_MD5: w.salt_lo = 3; w.salt_len = run_until_dollar(3, 8); w.salt_alpha = "./0123456789ABCDEFGHIJKLMNOPQRSTUVWXYZabcdefghijklmnopqrstuvwxyz#%&()+,-<=>?@[]^_{|}~"; break;
    case M_SHA256: case M_SHA512: {
      size_t pos = 3;
      if (S.compare(3, 7, "rounds=") == 0) {
        size_t e = S.find('$', 10);
        if (e == Bytes::npos) return w;
        if (e - 10 >= 4) w.cost_pos = {e - 1, e - 2, e - 3};
        pos = e + 1;
      }
      w.salt_lo = pos; w.salt_len = run_until_dollar(pos, 16);
      w.salt_alpha = "./0123456789ABCDEFGHIJKLMNOPQRSTUVWXYZabcdefghijklmnopqrstuvwxyz#%&()+,-<=>?@[]^_{|}~";
      break;
    }
    case M_SHA1: {
      size_t e = S.find('$', 6);
      if (e == Bytes::npos) return w;
      if (e > 6 && S[e - 1] >= '0' && S[e - 1] <= '9') w.cost_pos = {e - 1};
      size_t q = e + 1, z = q;
      while (z < S.size() && is_a64((unsigned char)S[z])) z++;
      w.salt_lo = q; w.salt_len = z - q;
      break;
    }
    case M_SUNMD5: {
      size_t pos = 5;
      if (S.size() > 5 && S.compare(5, 7, "rounds=") == 0) {
        size_t e = S.find('$', 12);
        if (e == Bytes::npos) return w;
        w.cost_pos = {e - 1};
        pos = e + 1;
      }
      size_t z = pos;
      while (z < S.size() && is_a64((unsigned char)S[z])) z++;
      w.salt_lo = pos; w.salt_len = z - pos;
      break;
    }
    case M_BF_A: case M_BF_B: case M_BF_X: case M_BF_Y:
      if (S.size() >= 29) { w.salt_lo = 7; w.salt_len = 22; w.salt_alpha = BF64; w.cost_pos = {5}; w.cost_alpha = "456"; }
      break;
    case M_SCRYPT: {
      if (S.size() < 14) return w;
      size_t e = S.rfind('$');
      size_t end = (e != Bytes::npos && e >= 14) ? e : S.size();
      w.salt_lo = 14; w.salt_len = end - 14;
      w.cost_pos = {3}; w.cost_alpha = "0123456";
      break;
    }
    case M_YESCRYPT: case M_GOST: {
      size_t t = strlen(METHOD_TAG[m]);
      size_t p1 = S.find('$', t);
      if (p1 == Bytes::npos) return w;
      size_t e = S.find('$', p1 + 1);
      size_t end = e == Bytes::npos ? S.size() : e;
      w.salt_lo = p1 + 1; w.salt_len = end - (p1 + 1);
      w.cost_pos = {t + 1}; w.cost_alpha = "0123456";
      break;
    }
    default: break;
  }
  return w;
}

// ---- documented per-method grammar violations (C05 "malformed parameters") ----------------
// Returns a reason when crypt(5)'s format for the method the tag selects rules the setting out;
// "" when the documentation leaves it open (lenient parsers may then accept or reject).
inline std::string method_must_fail(const Bytes &S) {
  Method m = classify_tag(S);
  auto digits_ok = [&](size_t pos, unsigned long long lo, unsigned long long hi, size_t &end) -> bool {
    // [1-9][0-9]* within [lo, hi], followed by '$'
    if (pos >= S.size() || S[pos] < '1' || S[pos] > '9') return false;
    unsigned long long v = 0;
    size_t i = pos;
    while (i < S.size() && S[i] >= '0' && S[i] <= '9') {
      if (v > (~0ULL) / 10 - 1) return false;
      v = v * 10 + (unsigned)(S[i] - '0');
      i++;
    }
    end = i;
    if (i >= S.size() || S[i] != '$') return false;
    return v >= lo && v <= hi;
  };
  switch (m) {
    case M_BSDI:
      if (S.size() < 9) return "bsdicrypt setting shorter than 9 characters";
      for (size_t i = 1; i < 9; i++)
        if (!is_a64((unsigned char)S[i])) return "bsdicrypt count/salt character outside ./0-9A-Za-z";
      return "";
    case M_BF_A: case M_BF_B: case M_BF_X: case M_BF_Y: {
      if (S.size() < 29) return "bcrypt setting shorter than 29 characters";
      if (S[4] < '0' || S[4] > '9' || S[5] < '0' || S[5] > '9' || S[6] != '$') return "bcrypt cost field is not two digits and '$'";
      int cost = (S[4] - '0') * 10 + (S[5] - '0');
      if (cost < 4 || cost > 31) return "bcrypt cost outside 04..31";
      for (size_t i = 7; i < 29; i++)
        if (bf64val((unsigned char)S[i]) < 0) return "bcrypt salt character outside its alphabet";
      return "";
    }
    case M_SHA256: case M_SHA512:
      if (S.compare(3, 7, "rounds=") == 0) {
        size_t e;
        if (!digits_ok(10, 1000, 999999999ULL, e)) return "sha2crypt rounds field not [1-9][0-9]* in 1000..999999999 followed by '$'";
      }
      return "";
    case M_SHA1:
      if (S.size() < 6 || S[5] != '$') return "sha1crypt tag not followed by '$'";
      return "";
    case M_SUNMD5: {
      if (S.size() < 5 || (S[4] != '$' && S[4] != ',')) return "sunmd5 tag not followed by '$' or ','";
      size_t pos = 5;
      if (S.compare(5, 7, "rounds=") == 0) {
        size_t e;
        if (!digits_ok(12, 1, 0xffffffffULL, e)) return "sunmd5 rounds field not [1-9][0-9]* (32 bit) followed by '$'";
        pos = e + 1;
      }
      while (pos < S.size() && is_a64((unsigned char)S[pos])) pos++;
      if (pos < S.size() && S[pos] != '$') return "sunmd5 salt character outside ./0-9A-Za-z";
      return "";
    }
    case M_SCRYPT: {
      if (S.size() < 14) return "scrypt setting shorter than its parameter field";
      for (size_t i = 3; i < 14; i++)
        if (!is_a64((unsigned char)S[i])) return "scrypt parameter character outside ./0-9A-Za-z";
      if (S[3] == '.') return "scrypt N = 2^0";
      if (S.size() > 339) return "scrypt setting too long for the output field";
      for (size_t i = 14; i < S.size(); i++) {
        unsigned char c = (unsigned char)S[i];
        if (is_a64(c) || c == '$') continue;
        if (S[i - 1] == '$') break;  // documented: text after a '$' that ends the salt does not matter
        return "scrypt salt character outside ./0-9A-Za-z$";
      }
      return "";
    }
    case M_YESCRYPT: case M_GOST: {
      size_t t = strlen(METHOD_TAG[m]);
      if (S.size() > 339) return "yescrypt setting too long for the output field";
      size_t p1 = S.find('$', t);
      if (p1 == Bytes::npos || p1 == t) return "yescrypt parameter field missing";
      for (size_t i = t; i < p1; i++)
        if (!is_a64((unsigned char)S[i])) return "yescrypt parameter character outside ./0-9A-Za-z";
      {
        // the first number selects the flavor: 0 (classic scrypt), 1 (write-once-read-many) or the one read-write
        // flavor yescrypt defines, spelled 'j'; every other value names a variant no implementation computes, and
        // hashing it as if it were one of those would disagree with every other implementation
        size_t pos = t;
        uint64_t flavor = 0;
        if (!yvar_decode(S, pos, 0, flavor) || pos > p1) return "yescrypt flavor field cannot be decoded";
        if (flavor != 0 && flavor != 1 && flavor != 47) return "yescrypt flavor is none of the defined ones";
      }
      return "";
    }
    default: return "";
  }
}

}  // namespace vf
