// Harness driver: argument parsing, modes (rc | grid | replay).
#pragma once
#include "core.hpp"
#ifndef VF_NO_RC
#include <rapidcheck.h>
#endif

namespace vf {

#ifndef VF_NO_RC
// Run a rapidcheck campaign: gen produces a KV case, check decides it.
template <class GenFn>
int run_rc_generic(Ctx &ctx, const char *id, Verdict (*check)(const KV &, Ctx &), GenFn gen) {
  bool ok = rc::check(id, [&]() {
    KV c = gen();
    ctx.st.evaluations++;
    if ((ctx.st.evaluations & 255) == 0) ctx.st.flush(false);
    ctx.current(c);
    Verdict v = check(c, ctx);
    if (!v.empty()) {
      ctx.fail(c, v);
      RC_FAIL(v);
    }
  });
  return ok ? 0 : 1;
}
#endif

inline int vf_main(int argc, char **argv, Prop *props, size_t nprops) {
  std::string prop, mode = "rc", out, casefile, tier = "quick";
  Ctx ctx;
  for (int i = 1; i < argc; i++) {
    std::string a = argv[i];
    auto next = [&]() -> std::string { return i + 1 < argc ? argv[++i] : ""; };
    if (a == "--prop") prop = next();
    else if (a == "--mode") mode = next();
    else if (a == "--out") out = next();
    else if (a == "--case") casefile = next();
    else if (a == "--tier") tier = next();
    else if (a == "--seed") ctx.seed = strtoull(next().c_str(), nullptr, 10);
    else if (a == "--budget-ms") ctx.tier.budget_ms = atol(next().c_str());
    else if (a == "--shard") {
      std::string s = next();
      sscanf(s.c_str(), "%d/%d", &ctx.shard, &ctx.nshards);
    }
  }
  ctx.tier.thorough = tier == "thorough";
  ctx.outdir = out;
  ctx.st.outdir = out;
  Prop *p = nullptr;
  for (size_t i = 0; i < nprops; i++)
    if (prop == props[i].id) p = &props[i];
  if (!p) {
    fprintf(stderr, "unknown property '%s'\n", prop.c_str());
    return 2;
  }
  int rc_ = 0;
  if (mode == "replay") {
    std::string text;
    if (!read_file(casefile, text)) {
      fprintf(stderr, "cannot read %s\n", casefile.c_str());
      return 2;
    }
    KV c = KV::parse(text);
    ctx.outdir.clear();  // a replay writes nothing
    ctx.st.outdir.clear();
    Verdict v = p->check(c, ctx);
    if (!v.empty()) {
      printf("REPLAY-FAIL %s\n", v.c_str());
      return 3;
    }
    printf("REPLAY-PASS\n");
    return 0;
  } else if (mode == "grid") {
    if (!p->run_grid) return 2;
    rc_ = p->run_grid(ctx);
  } else {
#ifndef VF_NO_RC
    if (!p->run_rc) return 2;
    rc_ = p->run_rc(ctx);
#else
    fprintf(stderr, "built without rapidcheck\n");
    return 2;
#endif
  }
  ctx.st.flush();
  return rc_ ? 3 : 0;
}

}  // namespace vf
