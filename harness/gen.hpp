// rapidcheck generators (DESIGN.md section 1.3).  Everything random comes from
// rapidcheck so that shrinking and seeding work.
#pragma once
#include <rapidcheck.h>

#include "methods.hpp"

namespace vf {
namespace g {

// inRange that does not collapse at small sizes
inline rc::Gen<long long> ir(long long lo, long long hi_incl) {
  return rc::gen::resize(100, rc::gen::inRange<long long>(lo, hi_incl + 1));
}
inline long long pick(long long lo, long long hi_incl) { return *ir(lo, hi_incl); }
inline bool coin(int num = 1, int den = 2) { return pick(1, den) <= num; }
inline uint64_t u64() {
  uint64_t a = (uint64_t)pick(0, 0xffffffffLL), b = (uint64_t)pick(0, 0xffffffffLL);
  return (a << 32) | b;
}
template <class T>
inline T oneof(std::initializer_list<T> l) {
  std::vector<T> v(l);
  return v[(size_t)pick(0, (long long)v.size() - 1)];
}
// weighted index
inline int wpick(std::initializer_list<int> weights) {
  long long tot = 0;
  for (int w : weights) tot += w;
  long long x = pick(0, tot - 1);
  int i = 0;
  for (int w : weights) {
    if (x < w) return i;
    x -= w;
    i++;
  }
  return 0;
}
inline Bytes chars_from(const char *alphabet, size_t n) {
  size_t al = strlen(alphabet);
  Bytes o;
  for (size_t i = 0; i < n; i++) o.push_back(alphabet[pick(0, (long long)al - 1)]);
  return o;
}
inline Bytes rbytes(size_t n, int style = -1) {
  // style: 0 random, 1 all 0x00, 2 all 0xff, 3 small values, 4 repeated random byte
  if (style < 0) style = wpick({12, 1, 1, 1, 1});
  Bytes o;
  unsigned char rep = (unsigned char)pick(0, 255);
  for (size_t i = 0; i < n; i++) {
    switch (style) {
      case 1: o.push_back((char)0); break;
      case 2: o.push_back((char)0xff); break;
      case 3: o.push_back((char)pick(0, 3)); break;
      case 4: o.push_back((char)rep); break;
      default: o.push_back((char)pick(0, 255));
    }
  }
  return o;
}
static const char PWSAFE[] = "\"#$%&'()+,-./0123456789<=>?@ABCDEFGHIJKLMNOPQRSTUVWXYZ[]^_`abcdefghijklmnopqrstuvwxyz{|}~";
static const char PWSAFE_NODOLLAR[] = "\"#%&'()+,-./0123456789<=>?@ABCDEFGHIJKLMNOPQRSTUVWXYZ[]^_`abcdefghijklmnopqrstuvwxyz{|}~";

// ---- phrases ---------------------------------------------------------------
inline size_t phrase_len(size_t maxlen = 511) {
  static const int lo[] = {0, 1, 8, 9, 17, 55, 72, 73, 111, 128, 129, 200, 256, 511};
  static const int hi[] = {0, 7, 8, 16, 54, 71, 72, 110, 127, 128, 199, 255, 510, 511};
  int k = wpick({2, 8, 4, 8, 8, 6, 3, 4, 5, 3, 4, 3, 4, 2});
  size_t n = (size_t)pick(lo[k], hi[k]);
  return n > maxlen ? maxlen : n;
}
inline Bytes phrase_of_len(size_t n) {
  int style = wpick({6, 6, 3, 2, 1, 1});  // ascii, full 1..255, high-bit heavy, contains 0x80/0xff, repeated, runs of 0xff
  size_t run_at = n ? (size_t)pick(0, (long long)n - 1) & ~(size_t)7 : 0, run_len = (size_t)pick(8, 96);
  if (style == 5 && coin(1, 3)) { run_at = 0; run_len = n; }
  Bytes o;
  unsigned char rep = (unsigned char)pick(1, 255);
  for (size_t i = 0; i < n; i++) {
    unsigned char c;
    switch (style) {
      case 0: c = (unsigned char)pick(0x20, 0x7e); break;
      case 1: c = (unsigned char)pick(1, 255); break;
      case 2: c = (unsigned char)pick(0x80, 0xff); break;
      case 3: c = coin(1, 4) ? (coin() ? 0x80 : 0xff) : (unsigned char)pick(1, 255); break;
      case 5: c = (i >= run_at && i < run_at + run_len) ? 0xff : (unsigned char)pick(1, 255); break;
      default: c = rep;
    }
    o.push_back((char)c);
  }
  return o;
}
inline Bytes phrase(size_t maxlen = 511) { return phrase_of_len(phrase_len(maxlen)); }

// Phrases on which bcrypt's $2a$ "safety" deviation and the $2x$ sign-extension bug are decided: 8-bit bytes whose
// sign extension is harmless because every earlier byte of the same 4-byte key word is 0xff.  Length = 3 mod 4 keeps
// the word alignment when the key (with its NUL) is cycled.
inline Bytes phrase_bcrypt_8bit() {
  size_t nblocks = (size_t)pick(1, 18);
  Bytes o;
  for (size_t b = 0; b < nblocks; b++) {
    int k = wpick({4, 3, 2, 2, 1});
    unsigned char x = (unsigned char)pick(0x80, 0xff), a1 = (unsigned char)pick(0x21, 0x7e), a2 = (unsigned char)pick(0x21, 0x7e), a3 = (unsigned char)pick(0x21, 0x7e), a4 = (unsigned char)pick(0x21, 0x7e);
    unsigned char w[4];
    switch (k) {
      case 0: w[0] = a1; w[1] = a2; w[2] = a3; w[3] = a4; break;
      case 1: w[0] = 0xff; w[1] = x; w[2] = a1; w[3] = a2; break;
      case 2: w[0] = 0xff; w[1] = 0xff; w[2] = x; w[3] = a1; break;
      case 3: w[0] = 0xff; w[1] = 0xff; w[2] = 0xff; w[3] = x; break;
      default: w[0] = x; w[1] = a1; w[2] = a2; w[3] = a3; break;
    }
    size_t n = b + 1 == nblocks ? 3 : 4;
    o.append((const char *)w, n);
  }
  return o;
}

// ---- valid settings, by construction ---------------------------------------
struct SOpts {
  bool cheap = true;       // keep cost fields at the cheap end
  size_t sha1_salt_max = 64;
  bool allow_tail = true;
  int budget_ms = 60;
  int realistic_cost_max = 0;  // > 0: also draw the documented gensalt cost parameters 1..max for (ye)scrypt
};
struct SGen {
  Bytes s;
  std::string cls;  // class label: salt class / cost spelling / terminator / tail
};

inline Bytes digest_like(Method m, size_t phrase_len_hint = 20) {
  size_t n = digest_len(m);
  if (m == M_BIG) n = 11 * (size_t)pick(1, 16);
  (void)phrase_len_hint;
  return chars_from(digest_alphabet(m), n);
}
// tail after the salt terminator: 0 none, 1 digest-like, 2 same alphabet other length, 3 junk
inline Bytes tail_of(Method m, int kind, bool allow_dollar) {
  switch (kind) {
    case 1: return digest_like(m);
    case 2: return chars_from(digest_alphabet(m), (size_t)pick(1, 100));
    case 3: return chars_from(allow_dollar ? PWSAFE : PWSAFE_NODOLLAR, (size_t)pick(1, 60));
    default: return Bytes();
  }
}
static const char *const TAILN[] = {"notail", "digest", "alpha", "junk"};

inline Method any_method() { return (Method)pick(0, N_METHODS - 1); }

inline SGen valid_setting(Method m, const SOpts &o) {
  SGen r;
  std::string &cls = r.cls;
  Bytes &s = r.s;
  int tk = o.allow_tail ? wpick({3, 4, 1, 2}) : 0;
  switch (m) {
    case M_DES: case M_BIG: {
      s = chars_from(A64, 2);
      // the tail length selects descrypt vs bigcrypt for long phrases
      int k = (m == M_BIG) ? wpick({0, 0, 1, 4, 2}) : wpick({3, 3, 1, 1, 1});
      size_t tl = 0;
      switch (k) {
        case 0: tl = 0; cls = "len2"; break;
        case 1: tl = 11; cls = "len13"; break;
        case 2: tl = 12; cls = "len14"; break;
        case 3: tl = 11 * (size_t)pick(2, 16); cls = "bigdigest"; break;
        default: tl = (size_t)pick(1, 200); cls = "lenother"; break;
      }
      s += coin(3, 4) ? chars_from(A64, tl) : chars_from(PWSAFE, tl);
      break;
    }
    case M_BSDI: {
      s = "_";
      uint64_t cnt = o.cheap ? (uint64_t)pick(0, 3000) : (uint64_t)pick(0, 200000);
      if (coin(1, 10)) cnt = (uint64_t)pick(0, 3);
      if (coin(1, 40)) cnt = 0;
      for (int i = 0; i < 4; i++) s.push_back(A64[(cnt >> (6 * i)) & 63]);
      s += chars_from(A64, 4);
      cls = cnt == 0 ? "count0" : (cnt & 1 ? "odd" : "even");
      if (tk) s += (tk == 1 ? chars_from(A64, 11) : tail_of(m, tk, true));
      cls += std::string("/") + TAILN[tk];
      break;
    }
    case M_MD5: {
      s = "$1$";
      int k = wpick({1, 3, 3, 2});
      size_t n = k == 0 ? 0 : k == 1 ? (size_t)pick(1, 7) : k == 2 ? 8 : (size_t)pick(9, 20);
      static const char *nm[] = {"salt0", "saltshort", "salt8", "saltover"};
      cls = nm[k];
      s += chars_from(PWSAFE_NODOLLAR, n);
      if (tk) { s += "$"; s += tail_of(m, tk, true); } else if (coin()) { s += "$"; cls += "/term"; }
      cls += std::string("/") + TAILN[tk];
      break;
    }
    case M_SHA256: case M_SHA512: {
      s = m == M_SHA256 ? "$5$" : "$6$";
      int rk = o.cheap ? wpick({2, 6, 1, 1, 0}) : wpick({2, 3, 1, 1, 2});
      static const char *rn[] = {"default", "explicit-low", "explicit-5000", "explicit-mid", "explicit-high"};
      unsigned long long rounds = 0;
      switch (rk) {
        case 1: rounds = (unsigned long long)pick(1000, 1200); break;
        case 2: rounds = 5000; break;
        case 3: rounds = (unsigned long long)pick(1201, 6000); break;
        case 4: rounds = (unsigned long long)pick(6001, 200000); break;
      }
      bool deployed = coin(1, o.cheap ? 40 : 15);
      if (deployed) {
        // round numbers real deployments write (six digits - passlib's defaults 535000 / 656000 among them - and the
        // cheapest seven-digit one); run under the governor's over-budget quota
        rk = 4;
        rounds = o.cheap ? oneof<unsigned long long>({100000, 100001, 123456}) : oneof<unsigned long long>({100000, 535000, 656000, 999999, 1000000});
      }
      if (rk) s += "rounds=" + std::to_string(rounds) + "$";
      cls = rn[rk];
      if (deployed) cls += "-deployed";
      int k = wpick({1, 3, 3, 2});
      size_t n = k == 0 ? 0 : k == 1 ? (size_t)pick(1, 15) : k == 2 ? 16 : (size_t)pick(17, 30);
      if (deployed && coin(2, 3)) { k = 2; n = 16; }
      static const char *nm[] = {"salt0", "saltshort", "salt16", "saltover"};
      cls += std::string("/") + nm[k];
      if (rk && !deployed && coin(1, 12)) {
        // a salt that reads like the method's own option field (legal: '=' and digits are salt characters)
        s += "rounds=" + std::to_string(pick(1, 99999));
        if (coin()) s += chars_from(PWSAFE_NODOLLAR, (size_t)pick(0, 6));
        cls += "-optionlike";
      } else
        s += chars_from(PWSAFE_NODOLLAR, n);
      if (tk) { s += "$"; s += tail_of(m, tk, true); } else if (coin()) { s += "$"; cls += "/term"; }
      cls += std::string("/") + TAILN[tk];
      break;
    }
    case M_SHA1: {
      s = "$sha1$";
      int sp = wpick({6, 1, 1, 1});  // plain, leading zeros, +n, empty
      unsigned long long it = o.cheap ? (unsigned long long)pick(0, 3000) : (unsigned long long)pick(0, 300000);
      if (coin(1, 8)) it = (unsigned long long)pick(0, 2);
      static const char *sn[] = {"plain", "zeros", "plus", "empty"};
      cls = sn[sp];
      switch (sp) {
        case 0: s += std::to_string(it); break;
        case 1: s += Bytes((size_t)pick(1, 4), '0') + std::to_string(it); break;
        case 2: s += "+" + std::to_string(it); break;
        default: break;
      }
      s += "$";
      int k = wpick({3, 3, 1, 1});
      size_t n = k == 0 ? (size_t)pick(1, 8) : k == 1 ? (size_t)pick(9, 63) : k == 2 ? 64 : (size_t)pick(65, (long long)o.sha1_salt_max > 65 ? (long long)o.sha1_salt_max : 65);
      if (n > o.sha1_salt_max) n = o.sha1_salt_max;
      static const char *nm[] = {"saltshort", "saltmid", "salt64", "saltlong"};
      cls += std::string("/") + nm[k];
      s += chars_from(A64, n);
      if (tk) { s += "$"; s += tail_of(m, tk, true); } else if (coin()) { s += "$"; cls += "/term"; }
      cls += std::string("/") + TAILN[tk];
      break;
    }
    case M_SUNMD5: {
      s = "$md5";
      s += coin() ? "$" : ",";
      cls = s[4] == '$' ? "dollar" : "comma";
      if (coin(1, 3)) {
        unsigned long long rr = o.cheap ? (unsigned long long)pick(1, 300) : (unsigned long long)pick(1, 100000);
        s += "rounds=" + std::to_string(rr) + "$";
        cls += "/rounds";
      }
      int k = wpick({1, 3, 3, 2});
      size_t n = k == 0 ? 0 : k == 1 ? (size_t)pick(1, 7) : k == 2 ? 8 : coin(1, 4) ? (size_t)pick(41, 330) : (size_t)pick(9, 40);
      static const char *nm[] = {"salt0", "saltshort", "salt8", "saltlong"};
      cls += std::string("/") + nm[k];
      s += chars_from(A64, n);
      int e = wpick({2, 2, 2, 3, 3});  // "", "$", "$$", "$"tail, "$$"tail
      static const char *en[] = {"end", "$", "$$", "$tail", "$$tail"};
      cls += std::string("/") + en[e];
      Bytes t = tail_of(m, coin(2, 3) ? 1 : 2, false);
      switch (e) {
        case 1: s += "$"; break;
        case 2: s += "$$"; break;
        case 3: s += "$" + t; break;
        case 4: s += "$$" + t; break;
        default: break;
      }
      break;
    }
    case M_NT: {
      s = "$3$";
      int k = wpick({2, 3, 2});
      static const char *nm[] = {"bare", "$digest", "junk"};
      cls = nm[k];
      if (k == 1) s += "$" + chars_from("0123456789abcdef", 32);
      else if (k == 2) s += chars_from(PWSAFE, (size_t)pick(1, 60));
      break;
    }
    case M_BF_A: case M_BF_B: case M_BF_X: case M_BF_Y: {
      s = METHOD_TAG[m];
      int cost = o.cheap ? (coin(9, 10) ? 4 : 5) : (int)pick(4, 8);
      char b[8];
      snprintf(b, sizeof b, "%02d$", cost);
      s += b;
      s += chars_from(BF64, 22);
      cls = std::string("last=") + (strchr(".Oeu", s[28]) ? "canon" : "noncanon");
      int k = wpick({2, 4, 1, 2});
      if (k == 1) s += chars_from(BF64, 31);
      else if (k == 2) s += chars_from(BF64, (size_t)pick(1, 80));
      else if (k == 3) s += chars_from(PWSAFE, (size_t)pick(1, 60));
      cls += std::string("/") + TAILN[k];
      break;
    }
    case M_SCRYPT: {
      s = "$7$";
      int nl = o.cheap ? (int)pick(2, 9) : (int)pick(2, 13);
      uint32_t rr = (uint32_t)pick(1, o.cheap ? 4 : 8), pp = (uint32_t)pick(1, 3);
      if (o.realistic_cost_max >= 6 && coin(1, 4)) {
        int c = (int)pick(6, o.realistic_cost_max);  // documented scrypt costs: N = 2^(c+7), r = 32, p = 1
        nl = c + 7; rr = 32; pp = 1;
      } else if (coin(1, 5)) {
        // multi-character r / p values (the 30-bit fields are five characters) with a tiny N
        nl = (int)pick(2, 4);
        rr = oneof<uint32_t>({32, 63, 64, 65, 100, 255, 256, 1000, 4095, 4096});
        pp = oneof<uint32_t>({1, 2, 5, 63, 64, 65});
        if ((uint64_t)rr * pp > 8192) pp = 1;
      }
      s.push_back(A64[nl]);
      s += fixed30_encode(rr);
      s += fixed30_encode(pp);
      int k = wpick({1, 4, 2});
      static const char *nm[] = {"salt0", "salt", "salt$"};
      cls = nm[k];
      if (k == 1) {
        // the salt is an arbitrary-length string: all of 1..325 (result lengths up to the output field) is drawn
        int lc = wpick({8, 3, 2, 1});
        s += chars_from(A64, lc == 0 ? (size_t)pick(1, 60) : lc == 1 ? (size_t)pick(61, 150) : lc == 2 ? (size_t)pick(151, 281) : (size_t)pick(282, 325));
        if (lc) cls += "-long";
      } else if (k == 2) {
        s += chars_from(A64, (size_t)pick(0, 20));
        s += "$";
        s += chars_from(A64, (size_t)pick(1, 20));
      }
      if (tk == 3) {
        // the salt scanner only ignores trailing material when the first character after '$' is outside the salt alphabet
        s += "$";
        s += chars_from("\"#%&'()+,-<=>?@[]^_`{|}~", 1);
        s += chars_from(PWSAFE_NODOLLAR, (size_t)pick(0, 60));
      } else if (tk) { s += "$"; s += tail_of(m, tk, false); } else if (coin()) { s += "$"; cls += "/term"; }
      cls += std::string("/") + TAILN[tk];
      if (pp > 1) cls += "/p>1";
      break;
    }
    case M_YESCRYPT: case M_GOST: {
      s = METHOD_TAG[m];
      int fl = wpick({6, 2, 2});  // RW defaults 'j', WORM, classic scrypt
      uint64_t flavor = fl == 0 ? 47 : fl == 1 ? 1 : 0;
      static const char *fn[] = {"rw", "worm", "classic"};
      cls = fn[fl];
      int nl = o.cheap ? (int)pick(2, 10) : (int)pick(2, 14);
      uint64_t rr = (uint64_t)pick(1, o.cheap ? 4 : 8);
      uint64_t pp = 1, tt = 0;
      uint64_t have = 0;
      if (coin(1, 3)) {
        have |= 1;
        pp = (uint64_t)pick(2, 4);
      }
      if (fl != 2 && coin(1, 4)) {
        have |= 2;
        tt = (uint64_t)pick(1, 3);
      }
      // parameter sets real deployments use: the costs crypt_gensalt(3) documents (count c: N = 2^(c+9), r = 8 for
      // c <= 2, N = 2^(c+7), r = 32 above), and N*r around the 2^17 blocks (16 MiB) where yescrypt starts to pre-hash
      bool multichar = coin(1, 6);
      if (multichar) {
        // multi-character parameter encodings (values >= 48 take two characters, >= 560 three) with a tiny N
        nl = (int)pick(2, 5);
        rr = oneof<uint64_t>({32, 47, 48, 49, 100, 559, 560, 561, 1000});
        if (have & 1) pp = oneof<uint64_t>({2, 3, 49, 50, 51, 100});
        if (have & 2) tt = oneof<uint64_t>({1, 2, 47, 48, 49});
        if (rr * pp > 4096) pp = have & 1 ? 2 : 1;
        cls += "/multichar-params";
      }
      int real = (o.realistic_cost_max > 0 && !multichar) ? wpick({6, 2, 2}) : 0;
      if (real == 1) {
        int c = (int)pick(1, o.realistic_cost_max);
        nl = c <= 2 ? c + 9 : c + 7;
        rr = c <= 2 ? 8 : 32;
        pp = 1; tt = 0; have = 0;
        cls += "/gensalt-cost" + std::to_string(c);
      } else if (real == 2) {
        nl = (int)pick(12, 17);
        rr = 1ULL << (17 - nl);
        int d = wpick({4, 1, 1});
        if (d == 1 && rr > 1) rr -= 1;
        if (d == 2) rr += 1;
        if (have & 1) pp = 2;
        tt = 0; have &= 1;
        cls += "/prehash-threshold";
      }
      if (fl == 0) {
        // RW needs N/p > 3
        while (((1ULL << nl) / pp) <= 3) nl++;
      }
      s += yvar_encode(flavor, 0);
      s += yvar_encode((uint64_t)nl, 1);
      s += yvar_encode(rr, 1);
      if (have) {
        s += yvar_encode(have, 1);
        if (have & 1) s += yvar_encode(pp, 2);
        if (have & 2) s += yvar_encode(tt, 1);
        cls += "/have" + std::to_string(have);
      }
      s += "$";
      int k = wpick({1, 3, 2, 1});
      size_t nb = k == 0 ? 0 : k == 1 ? (size_t)pick(1, 31) : k == 2 ? (size_t)pick(32, 63) : 64;
      static const char *nm[] = {"salt0", "saltshort", "saltlong", "salt64"};
      cls += std::string("/") + nm[k];
      s += b64le_encode(rbytes(nb, 0));
      if (tk) { s += "$"; s += tail_of(m, tk, false); } else if (coin()) { s += "$"; cls += "/term"; }
      cls += std::string("/") + TAILN[tk];
      break;
    }
    default: break;
  }
  return r;
}

// ---- mutated-valid and raw settings ------------------------------------------
// Other spellings of a decimal field (the usual strtoul pitfalls: sign, white space, leading zero, hexadecimal,
// values that wrap to an acceptable one, trailing text); most must be rejected, none may change the meaning silently.
inline Bytes respell_number(Bytes s, bool anybyte = true) {
  // the decimal runs that follow "rounds=" or the "$sha1$" tag
  std::vector<std::pair<size_t, size_t>> runs;
  for (size_t i = 0; i < s.size(); i++) {
    bool at = (i >= 7 && s.compare(i - 7, 7, "rounds=") == 0) || (i == 6 && s.compare(0, 6, "$sha1$") == 0) || (i == 4 && (s.compare(0, 4, "$2b$") == 0 || s.compare(0, 4, "$2a$") == 0 || s.compare(0, 4, "$2y$") == 0));
    if (!at) continue;
    size_t j = i;
    while (j < s.size() && s[j] >= '0' && s[j] <= '9') j++;
    runs.emplace_back(i, j - i);
  }
  if (runs.empty()) return s;
  auto r = runs[(size_t)pick(0, (long long)runs.size() - 1)];
  Bytes num = s.substr(r.first, r.second), alt;
  unsigned long long v = strtoull(num.c_str(), nullptr, 10);
  char buf[80];
  int k = (int)pick(0, 11);
  if (!anybyte && (k == 2 || k == 11)) k = 0;  // white space is not passwd-safe
  switch (k) {
    case 0: alt = "+" + num; break;
    case 1: alt = "-" + num; break;
    case 2: alt = " " + num; break;
    case 3: alt = "0" + num; break;
    case 4: snprintf(buf, sizeof buf, "0x%llx", v); alt = buf; break;
    case 5: snprintf(buf, sizeof buf, "%llu", v + 4294967296ULL); alt = buf; break;          // wraps in 32 bits
    case 6: snprintf(buf, sizeof buf, "1844674407370955%llu", 1616ULL + v); alt = buf; break;  // 2^64 + v for v < 8384
    case 7: snprintf(buf, sizeof buf, "-%llu", 0ULL - v); alt = buf; break;                  // strtoul negates: wraps back to v
    case 8: alt = num + "x"; break;
    case 9: alt = ""; break;
    case 10: alt = num + Bytes((size_t)pick(1, 30), '0'); break;
    default: alt = "\t" + num;
  }
  return s.substr(0, r.first) + alt + s.substr(r.first + r.second);
}

// yescrypt / gost-yescrypt: another value in the flavor field (first number of the parameter block), in its one- and
// two-character encodings; nearly all of them are undefined variants that must be refused
inline Bytes reflavor(const Bytes &s) {
  size_t t = s.compare(0, 3, "$y$") == 0 ? 3 : s.compare(0, 4, "$gy$") == 0 ? 4 : 0;
  if (!t || s.size() <= t) return s;
  size_t pos = t;
  uint64_t old = 0;
  if (!yvar_decode(s, pos, 0, old)) return s;
  uint64_t v = coin(1, 3) ? (uint64_t)pick(0, 47) : coin() ? (uint64_t)pick(48, 300) : oneof<uint64_t>({48, 49, 55, 56, 63, 111, 112, 175, 239, 303, 558, 559});
  if (v == old) v = old + 1;
  return s.substr(0, t) + yvar_encode(v, 0) + s.substr(pos);
}

inline Bytes mutate(Bytes s, int maxedits = 3, bool anybyte = true) {
  if (coin(1, 8)) {
    Bytes t = respell_number(s, anybyte);
    if (t != s) return t;
  }
  if ((s.compare(0, 3, "$y$") == 0 || s.compare(0, 4, "$gy$") == 0) && coin(1, 4)) {
    Bytes t = reflavor(s);
    if (t != s) return t;
  }
  int n = (int)pick(1, maxedits);
  for (int i = 0; i < n; i++) {
    int k = wpick({5, 2, 2, 1, 1});
    size_t pos = s.empty() ? 0 : (size_t)pick(0, (long long)s.size() - 1);
    unsigned char c = anybyte ? (unsigned char)pick(1, 255) : (unsigned char)PWSAFE[pick(0, (long long)sizeof(PWSAFE) - 2)];
    if (anybyte && coin(2, 3)) c = (unsigned char)PWSAFE[pick(0, (long long)sizeof(PWSAFE) - 2)];
    switch (k) {
      case 0: if (!s.empty()) s[pos] = (char)c; break;                 // replace
      case 1: s = s.substr(0, pos); break;                              // truncate
      case 2: if (!s.empty()) s.erase(pos, 1); break;                   // delete
      case 3: s.insert(pos, 1, (char)c); break;                         // insert
      default: if (!s.empty()) s.insert(pos, s.substr(pos, (size_t)pick(1, 40))); break;  // duplicate
    }
  }
  return s;
}
inline Bytes raw_setting(size_t maxlen) {
  size_t n = (size_t)pick(0, (long long)maxlen);
  int style = wpick({3, 3, 2});
  Bytes o;
  if (style == 2) {
    // tag-shaped head
    static const char *heads[] = {"$", "$$", "$1", "$2", "$2b", "$2b$", "$2z$", "$5", "$6$", "$7$", "$y$", "$gy$", "$g", "$sha1", "$sha", "$md5", "$md", "$md5x", "$3$", "_", "*0", "*1", "*", "$8$", "$argon2id$", "$9$"};
    o = heads[pick(0, (long long)(sizeof heads / sizeof *heads) - 1)];
  }
  while (o.size() < n) {
    unsigned char c = style == 0 ? (unsigned char)pick(1, 255) : (unsigned char)PWSAFE[pick(0, (long long)sizeof(PWSAFE) - 2)];
    o.push_back((char)c);
  }
  return o;
}

}  // namespace g
}  // namespace vf
