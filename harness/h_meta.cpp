// C18: crypt_checksalt / crypt_preferred_method agree with crypt and crypt_gensalt.
#include "api.hpp"
#include "main.hpp"
#include "methods.hpp"
#ifndef VF_NO_RC
#include "gen.hpp"
#endif

using namespace vf;

static const char *cs_name(int v) {
  switch (v) {
    case CRYPT_SALT_OK: return "OK";
    case CRYPT_SALT_INVALID: return "INVALID";
    case CRYPT_SALT_METHOD_DISABLED: return "DISABLED";
    case CRYPT_SALT_METHOD_LEGACY: return "LEGACY";
    case CRYPT_SALT_TOO_CHEAP: return "TOO_CHEAP";
    default: return "?";
  }
}
static_assert(CRYPT_SALT_OK == CS_OK && CRYPT_SALT_INVALID == CS_INVALID && CRYPT_SALT_METHOD_LEGACY == CS_LEGACY, "status codes");

static Verdict c18_one(const Bytes &s) {
  int got = crypt_checksalt(s.c_str());
  int want = checksalt_model(&s);
  if (got != want) return "C18 crypt_checksalt(\"" + vis(s, 100) + "\") = " + cs_name(got) + ", the documented classification is " + cs_name(want);
  return "";
}

static Verdict c18_check(const KV &c, Ctx &ctx) {
  if (c.has("global")) {
    // crypt_preferred_method / NULL prefix
    const char *pm = crypt_preferred_method();
    if (!pm) return "C18 crypt_preferred_method() returned NULL in a build with default-capable methods";
    if (crypt_checksalt(pm) != CRYPT_SALT_OK) return "C18 crypt_checksalt(crypt_preferred_method() = \"" + std::string(pm) + "\") is not OK";
    if (classify_tag(pm) != M_YESCRYPT) return "C18 preferred method is \"" + std::string(pm) + "\", the documented preference is yescrypt";
    Bytes rb = c.get("rbytes");
    unsigned long cnt = (unsigned long)c.getu("count");
    char b1[CRYPT_GENSALT_OUTPUT_SIZE], b2[CRYPT_GENSALT_OUTPUT_SIZE];
    // "exactly what it produces for that prefix" holds for every argument combination, the refused ones included:
    // nrbytes may be given negative or zero, and rbytes may be NULL (then only success/failure can be compared)
    int nrb = c.has("nrbytes") ? (int)c.geti("nrbytes") : (int)rb.size();
    bool rbnull = c.geti("rbytes_null") != 0;
    rb.resize(256, '\x33');  // large enough for whatever a (wrongly accepted) length makes the library read
    errno = 0;
    char *r1 = crypt_gensalt_rn(nullptr, cnt, rbnull ? nullptr : rb.data(), nrb, b1, sizeof b1);
    int e1 = errno;
    errno = 0;
    char *r2 = crypt_gensalt_rn(pm, cnt, rbnull ? nullptr : rb.data(), nrb, b2, sizeof b2);
    int e2 = errno;
    if (rbnull && r1 && r2) { r1 = b1; r2 = b1; }  // OS entropy: the strings differ by design
    ctx.st.executed += 2;
    if ((r1 == nullptr) != (r2 == nullptr) || (r1 && strcmp(r1, r2)) || (!r1 && e1 != e2))
      return "C18 crypt_gensalt_rn(NULL, " + std::to_string(cnt) + ", " + (rbnull ? "rbytes=NULL" : "rbytes") + ", nrbytes=" + std::to_string(nrb) + ") = " + (r1 ? "\"" + std::string(r1) + "\"" : "NULL/errno " + std::to_string(e1)) + " but with the preferred prefix \"" + pm + "\" = " + (r2 ? "\"" + std::string(r2) + "\"" : "NULL/errno " + std::to_string(e2));
    if (ctx.st.nontriv(fnv(c.serialize())) && ctx.st.samples.size() < ctx.st.sample_cap) ctx.st.sample("gensalt(NULL, " + std::to_string(cnt) + ", n=" + std::to_string(rb.size()) + ") == gensalt(\"" + pm + "\", ...) : " + (r1 ? r1 : "both fail"));
    ctx.st.cls(r1 ? "c18-null-prefix/success" : "c18-null-prefix/failure");
    return "";
  }
  Bytes s = c.get("s");
  s = s.substr(0, s.find('\0'));
  Verdict v = c18_one(s);
  ctx.st.executed++;
  if (!v.empty()) return v;
  int want = checksalt_model(&s);
  // depends only on the tag and the character set: appending clean characters changes nothing
  Bytes suffix = c.get("suffix");
  if (!suffix.empty() && passwd_safe(suffix) && want != CS_INVALID) {
    Bytes t = s + suffix;
    int g2 = crypt_checksalt(t.c_str());
    if (g2 != want) return "C18 crypt_checksalt changes from " + std::string(cs_name(want)) + " to " + cs_name(g2) + " when clean characters are appended: \"" + vis(t, 120) + "\"";
    ctx.st.cls("c18-append");
  }
  if (c.geti("hash")) {
    // any setting crypt can hash is never INVALID
    Cost k = decode_cost(s, 2);
    if (affordable(k, ctx.tier)) {
      HashRes h = hash_rn(c.get("phrase"), s);
      ctx.st.executed++;
      if (h.ok) {
        ctx.st.cls(std::string("c18-hashable/") + METHOD_NAME[classify_tag(s)]);
        if (want == CS_INVALID || crypt_checksalt(s.c_str()) == CRYPT_SALT_INVALID) return "C18 crypt hashes \"" + vis(s, 120) + "\" but crypt_checksalt calls it INVALID";
        if (crypt_checksalt(h.out.c_str()) != want) return "C18 crypt_checksalt classifies a hash differently from the setting that produced it: \"" + vis(h.out, 120) + "\"";
      }
    }
  }
  if (want != CS_INVALID) {
    if (ctx.st.nontriv(fnv(s)) && ctx.st.samples.size() < ctx.st.sample_cap) ctx.st.sample("checksalt(\"" + vis(s, 80) + "\") = " + cs_name(want));
    ctx.st.cls(std::string("c18/") + cs_name(want) + "/" + METHOD_NAME[classify_tag(s)]);
  } else
    ctx.st.cls("c18/INVALID");
  return "";
}

// enumerate: every byte string of length <= 3 (bytes 1..255), every printable string of length 4
// (thorough: every 5-character string starting with '$' or '_').  Sharded by first byte.
static int c18_grid(Ctx &ctx) {
  auto fail = [&](const Bytes &s, const Verdict &v) {
    KV c;
    c.set("s", s);
    ctx.current(c);
    ctx.fail(c, v);
    return 1;
  };
  uint64_t n = 0, nt = 0;
  char buf[8];
  auto test = [&](size_t len) -> bool {
    buf[len] = 0;
    n++;
    Bytes s(buf, len);
    int got = crypt_checksalt(buf);
    int want = checksalt_model(&s);
    if (want != CS_INVALID) nt++;
    return got == want;
  };
  if (ctx.shard == 0) {
    buf[0] = 0;
    if (!test(0)) return fail("", c18_one(""));
    if (crypt_checksalt(nullptr) != CRYPT_SALT_INVALID) return fail("", "C18 crypt_checksalt(NULL) is not INVALID");
  }
  for (int a = 1; a < 256; a++) {
    if ((a % ctx.nshards) != ctx.shard) continue;
    buf[0] = (char)a;
    if (!test(1)) return fail(Bytes(buf, 1), c18_one(Bytes(buf, 1)));
    for (int b = 1; b < 256; b++) {
      buf[1] = (char)b;
      if (!test(2)) return fail(Bytes(buf, 2), c18_one(Bytes(buf, 2)));
      for (int c = 1; c < 256; c++) {
        buf[2] = (char)c;
        if (!test(3)) return fail(Bytes(buf, 3), c18_one(Bytes(buf, 3)));
      }
    }
  }
  for (int a = 0x21; a < 0x7f; a++) {
    if ((a % ctx.nshards) != ctx.shard) continue;
    buf[0] = (char)a;
    for (int b = 0x21; b < 0x7f; b++) {
      buf[1] = (char)b;
      for (int c = 0x21; c < 0x7f; c++) {
        buf[2] = (char)c;
        for (int d = 0x21; d < 0x7f; d++) {
          buf[3] = (char)d;
          if (!test(4)) return fail(Bytes(buf, 4), c18_one(Bytes(buf, 4)));
        }
      }
    }
  }
  if (ctx.tier.thorough) {
    for (char first : {'$', '_'})
      for (int b = 0x21; b < 0x7f; b++) {
        if ((b % ctx.nshards) != ctx.shard) continue;
        buf[0] = first;
        buf[1] = (char)b;
        for (int c = 0x21; c < 0x7f; c++) {
          buf[2] = (char)c;
          for (int d = 0x21; d < 0x7f; d++) {
            buf[3] = (char)d;
            for (int e = 0x21; e < 0x7f; e++) {
              buf[4] = (char)e;
              if (!test(5)) return fail(Bytes(buf, 5), c18_one(Bytes(buf, 5)));
            }
          }
        }
      }
  }
  ctx.st.evaluations += n;
  ctx.st.executed += n;
  ctx.st.distinct_by_construction += nt;
  ctx.st.nontrivial += nt;
  ctx.st.cls("c18-grid/strings", n);
  ctx.st.cls("c18-grid/recognised", nt);
  return 0;
}

#ifndef VF_NO_RC
static int c18_run(Ctx &ctx) {
  return run_rc_generic(ctx, "C18", c18_check, [&]() {
    KV c;
    int k = g::wpick({4, 3, 2, 2, 1});
    g::SOpts o;
    if (g::coin(1, 15)) {
      // a recognised setting padded to 200..1000 characters with one ill character anywhere, also far beyond the
      // 384 characters any hash can have: "ill-charactered" is a statement about the whole string
      Bytes t = g::valid_setting(g::any_method(), o).s;
      size_t total = (size_t)g::oneof<int>({200, 383, 384, 385, 386, 400, 511, 600, 1000});
      while (t.size() < total) t.push_back(g::PWSAFE_NODOLLAR[g::pick(0, (long long)sizeof(g::PWSAFE_NODOLLAR) - 2)]);
      static const unsigned char BAD[] = {':', ';', '*', '!', '\\', ' ', '\t', '\n', 0x7f, 0x80, 0xff, 0x01};
      size_t at = g::coin(2, 3) && t.size() > 384 ? (size_t)g::pick(384, (long long)t.size() - 1) : (size_t)g::pick(0, (long long)t.size() - 1);
      t[at] = (char)BAD[g::pick(0, (long long)sizeof BAD - 1)];
      c.set("s", t);
      return c;
    }
    switch (k) {
      case 0: c.set("s", g::raw_setting(400)); break;
      case 1: {
        c.set("s", g::valid_setting(g::any_method(), o).s);
        c.seti("hash", 1);
        c.set("phrase", g::phrase(24));
        break;
      }
      case 2: c.set("s", g::mutate(g::valid_setting(g::any_method(), o).s, 2, true)); c.seti("hash", 1); c.set("phrase", "pw"); break;
      case 3: {
        // one edit away from a tag
        static const char *T[] = {"$y$", "$gy$", "$7$", "$2b$", "$2y$", "$2a$", "$2x$", "$6$", "$5$", "$sha1", "$md5", "$1$", "$3$", "_", "ab"};
        Bytes t = T[g::pick(0, 14)];
        c.set("s", g::mutate(t, 1, true) + g::chars_from(g::PWSAFE, (size_t)g::pick(0, 20)));
        break;
      }
      default:
        c.seti("global", 1);
        c.setu("count", g::coin() ? 0 : (unsigned long long)g::pick(0, 14));
        c.set("rbytes", g::rbytes((size_t)g::pick(0, 80)));
        if (g::coin(1, 4)) c.seti("nrbytes", g::oneof<long long>({-1, -2, -16, -2147483647LL - 1, 0, 1, 15, 16, 64, 65, 255, 256}));
        c.seti("rbytes_null", g::coin(1, 8));
        return c;
    }
    c.set("suffix", g::coin() ? g::chars_from(g::PWSAFE, (size_t)g::pick(1, 200)) : Bytes());
    return c;
  });
}
#else
#define c18_run nullptr
#endif

static Prop PROPS[] = {
  {"C18", c18_check, c18_run, c18_grid},
};

int main(int argc, char **argv) { return vf_main(argc, argv, PROPS, sizeof PROPS / sizeof *PROPS); }
