// C16 (digest/MAC/KDF primitives) and C17 (DES core, setkey/encrypt).
#include <dlfcn.h>
#include <openssl/des.h>
#include <openssl/md4.h>
#include <openssl/md5.h>
#include <openssl/sha.h>

#include "main.hpp"
#include "methods.hpp"
#include "prim_shim.h"
#include "ref/ref.hpp"
#ifndef VF_NO_RC
#include "gen.hpp"
#endif

using namespace vf;

// ---- helpers ------------------------------------------------------------------------
// copy of `b` ending exactly at the end of a heap block, starting at (block + off)
struct Exact {
  char *base;
  unsigned char *p;
  Exact(const Bytes &b, size_t off) {
    base = (char *)malloc(b.size() + off + (b.size() + off == 0));
    p = (unsigned char *)base + off;
    if (!b.empty()) memcpy(p, b.data(), b.size());
  }
  ~Exact() { free(base); }
};
static const char *const PRIM_NAME[] = {"md4", "md5", "sha1", "sha256", "sha512", "streebog256", "streebog512", "hmac-sha1", "hmac-sha256", "hmac-streebog256", "pbkdf2-sha256"};
enum { P_HMAC_SHA1 = 7, P_HMAC_SHA256, P_HMAC_GOST, P_PBKDF2, P_COUNT };

static Bytes ref_digest(int algo, const Bytes &m) {
  switch (algo) {
    case VFP_MD4: return ref::gcry_digest(GCRY_MD_MD4, m);
    case VFP_MD5: return ref::digest("MD5", m);
    case VFP_SHA1: return ref::digest("SHA1", m);
    case VFP_SHA256: return ref::digest("SHA256", m);
    case VFP_SHA512: return ref::digest("SHA512", m);
    case VFP_GOST256: return ref::gcry_digest(GCRY_MD_STRIBOG256, m);
    default: return ref::gcry_digest(GCRY_MD_STRIBOG512, m);
  }
}

// splits: sequence of chunk lengths (little-endian u16 pairs); remainder goes in a last chunk
static std::vector<size_t> decode_splits(const Bytes &s, size_t total) {
  std::vector<size_t> v;
  size_t used = 0;
  for (size_t i = 0; i + 1 < s.size() && used <= total; i += 2) {
    size_t n = (unsigned char)s[i] | ((size_t)(unsigned char)s[i + 1] << 8);
    if (n > total - used) n = total - used;
    v.push_back(n);
    used += n;
  }
  if (used < total || v.empty()) v.push_back(total - used);
  return v;
}

static Bytes lib_digest_chunked(int algo, const Bytes &msg, const std::vector<size_t> &chunks, size_t off) {
  void *ctx = malloc(vfp_ctx_size(algo));
  memset(ctx, 0xA5, vfp_ctx_size(algo));
  vfp_init(algo, ctx);
  size_t pos = 0;
  for (size_t n : chunks) {
    Exact e(msg.substr(pos, n), off);  // every chunk ends at the end of its block: over-reads trap
    vfp_update(algo, ctx, e.p, n);
    pos += n;
  }
  Bytes out(vfp_digest_len(algo), '\0');
  Exact o(out, off);
  vfp_final(algo, ctx, o.p);
  out.assign((char *)o.p, out.size());
  free(ctx);
  return out;
}

// ---- long messages by resumption -----------------------------------------------------------------
// "Every message length" includes lengths no test can feed.  The length counters and their carries are reached by
// putting both the tree's context and OpenSSL's into the state "B bytes (a multiple of the block) already hashed,
// chaining value H" and hashing a generated tail from there; both must produce the same digest.
#pragma GCC diagnostic push
#pragma GCC diagnostic ignored "-Wdeprecated-declarations"
static Bytes ref_resume(int prim, const uint32_t st32[8], const uint64_t st64[8], uint64_t bhi, uint64_t blo, const Bytes &tail) {
  unsigned char out[64];
  uint64_t bits_lo = blo << 3, bits_hi = (bhi << 3) | (blo >> 61);
  switch (prim) {
    case VFP_MD4: {
      MD4_CTX c;
      MD4_Init(&c);
      c.A = st32[0]; c.B = st32[1]; c.C = st32[2]; c.D = st32[3];
      c.Nl = (uint32_t)bits_lo; c.Nh = (uint32_t)(bits_lo >> 32);
      MD4_Update(&c, tail.data(), tail.size());
      MD4_Final(out, &c);
      return Bytes((char *)out, 16);
    }
    case VFP_MD5: {
      MD5_CTX c;
      MD5_Init(&c);
      c.A = st32[0]; c.B = st32[1]; c.C = st32[2]; c.D = st32[3];
      c.Nl = (uint32_t)bits_lo; c.Nh = (uint32_t)(bits_lo >> 32);
      MD5_Update(&c, tail.data(), tail.size());
      MD5_Final(out, &c);
      return Bytes((char *)out, 16);
    }
    case VFP_SHA1: {
      SHA_CTX c;
      SHA1_Init(&c);
      c.h0 = st32[0]; c.h1 = st32[1]; c.h2 = st32[2]; c.h3 = st32[3]; c.h4 = st32[4];
      c.Nl = (uint32_t)bits_lo; c.Nh = (uint32_t)(bits_lo >> 32);
      SHA1_Update(&c, tail.data(), tail.size());
      SHA1_Final(out, &c);
      return Bytes((char *)out, 20);
    }
    case VFP_SHA256: {
      SHA256_CTX c;
      SHA256_Init(&c);
      for (int i = 0; i < 8; i++) c.h[i] = st32[i];
      c.Nl = (uint32_t)bits_lo; c.Nh = (uint32_t)(bits_lo >> 32);
      SHA256_Update(&c, tail.data(), tail.size());
      SHA256_Final(out, &c);
      return Bytes((char *)out, 32);
    }
    case VFP_SHA512: {
      SHA512_CTX c;
      SHA512_Init(&c);
      for (int i = 0; i < 8; i++) c.h[i] = st64[i];
      c.Nl = bits_lo; c.Nh = bits_hi;
      SHA512_Update(&c, tail.data(), tail.size());
      SHA512_Final(out, &c);
      return Bytes((char *)out, 64);
    }
    default: return Bytes();
  }
}
#pragma GCC diagnostic pop

static Verdict c16_resume(const KV &c, Ctx &ctx) {
  int prim = (int)c.geti("prim") % 5;  // MD4, MD5, SHA-1, SHA-256, SHA-512 (libgcrypt's Streebog cannot be resumed)
  Bytes tail = c.get("msg");
  size_t off = (size_t)c.geti("off") & 15;
  std::vector<size_t> chunks = decode_splits(c.get("splits"), tail.size());
  uint64_t blo = c.getu("before_lo"), bhi = prim == VFP_SHA512 ? c.getu("before_hi") : 0;
  size_t bl = vfp_block_len(prim);
  blo &= ~(uint64_t)(bl - 1);
  // stay inside the functions' domains: fewer than 2^64 (SHA-512: 2^128) message bits in total
  if (prim != VFP_SHA512 && blo > (1ULL << 61) - (1ULL << 20)) blo = ((1ULL << 61) - (1ULL << 20)) & ~(uint64_t)(bl - 1);
  if (prim == VFP_SHA512 && bhi >= (1ULL << 60)) bhi &= (1ULL << 60) - 1;
  uint32_t st32[8];
  uint64_t st64[8];
  Bytes sv = c.get("state");
  sv.resize(64, '\x5c');
  memcpy(st64, sv.data(), 64);
  memcpy(st32, sv.data(), 32);
  void *cx = malloc(vfp_ctx_size(prim));
  vfp_init(prim, cx);
  if (!vfp_resume(prim, cx, st32, st64, bhi, blo)) { free(cx); return ""; }
  size_t pos = 0;
  for (size_t n : chunks) {
    Exact e(tail.substr(pos, n), off);
    vfp_update(prim, cx, e.p, n);
    pos += n;
  }
  Bytes got(vfp_digest_len(prim), '\0');
  vfp_final(prim, cx, (unsigned char *)&got[0]);
  free(cx);
  ctx.st.executed++;
  Bytes want = ref_resume(prim, st32, st64, bhi, blo, tail);
  std::string where = std::string(" [") + PRIM_NAME[prim] + " after " + (bhi ? std::to_string(bhi) + "*2^64+" : std::string()) + std::to_string(blo) + " bytes, tail len=" + std::to_string(tail.size()) + " chunks=" + std::to_string(chunks.size()) + "]";
  if (got != want) return "C16 digest of a long message differs from the standard function (context resumed at a block boundary): got " + hex(got) + " want " + hex(want) + where + " state=" + hex(sv.substr(0, prim == VFP_SHA512 ? 64 : 32)) + " tail=" + hex(tail.substr(0, 200));
  // does the tail carry a length counter across a word boundary?
  uint64_t end = blo + tail.size();
  bool carry = ((blo << 3) >> 32) != ((end << 3) >> 32) || (blo >> 29) != (end >> 29) || (prim == VFP_SHA512 && (blo >> 61) != (end >> 61));
  ctx.st.cls(std::string("c16-resume/") + PRIM_NAME[prim] + (carry ? "/carry" : "/plain"));
  if (ctx.st.nontriv(fnv(c.serialize())) && ctx.st.samples.size() < ctx.st.sample_cap) ctx.st.sample(std::string(PRIM_NAME[prim]) + " resumed after " + std::to_string(blo) + " bytes, tail " + std::to_string(tail.size()) + (carry ? " (length counter carries)" : ""));
  return "";
}

// One Update call of 2^29 bytes and more (where byte counts kept in 29 + 32 bits, or bit counts in 32 + 32, wrap
// inside a single call), against OpenSSL's one-shot functions on the same buffer.  The buffer is untouched calloc
// memory (zero pages), so it costs time, not memory.
#pragma GCC diagnostic push
#pragma GCC diagnostic ignored "-Wdeprecated-declarations"
static Verdict c16_huge(const KV &c, Ctx &ctx) {
  int prim = (int)c.geti("prim") % 5;
  size_t n = ((size_t)1 << 29) + (size_t)c.geti("extra") % 4096;
  size_t head = (size_t)c.geti("head") % 200;  // bytes fed in a first, small call
  unsigned char *buf = (unsigned char *)calloc(n, 1);
  if (!buf) return "";
  void *cx = malloc(vfp_ctx_size(prim));
  vfp_init(prim, cx);
  if (head) vfp_update(prim, cx, buf, head);
  vfp_update(prim, cx, buf + head, n - head);
  Bytes got(vfp_digest_len(prim), '\0');
  vfp_final(prim, cx, (unsigned char *)&got[0]);
  free(cx);
  unsigned char out[64];
  switch (prim) {
    case VFP_MD4: MD4(buf, n, out); break;
    case VFP_MD5: MD5(buf, n, out); break;
    case VFP_SHA1: SHA1(buf, n, out); break;
    case VFP_SHA256: SHA256(buf, n, out); break;
    default: SHA512(buf, n, out); break;
  }
  free(buf);
  ctx.st.executed++;
  Bytes want((char *)out, got.size());
  if (got != want) return std::string("C16 ") + PRIM_NAME[prim] + " of " + std::to_string(n) + " zero bytes fed as " + (head ? std::to_string(head) + " + " : std::string()) + std::to_string(n - head) + " differs from the standard function: got " + hex(got) + " want " + hex(want);
  ctx.st.cls(std::string("c16-huge-update/") + PRIM_NAME[prim]);
  ctx.st.nontriv(fnv(c.serialize()));
  return "";
}
#pragma GCC diagnostic pop

static Verdict c16_check(const KV &c, Ctx &ctx) {
  if (c.has("huge")) return c16_huge(c, ctx);
  if (c.has("before_lo")) return c16_resume(c, ctx);
  int prim = (int)c.geti("prim") % P_COUNT;
  Bytes msg = c.get("msg"), key = c.get("key"), salt = c.get("salt");
  size_t off = (size_t)c.geti("off") & 15;
  std::vector<size_t> chunks = decode_splits(c.get("splits"), msg.size());
  std::string where = std::string(" [") + PRIM_NAME[prim] + " len=" + std::to_string(msg.size()) + " chunks=" + std::to_string(chunks.size()) + " first=" + std::to_string(chunks[0]) + " off=" + std::to_string(off) + " keylen=" + std::to_string(key.size()) + "]";
  Bytes got, want;
  ctx.st.executed++;
  if (prim < VFP_NDIGEST) {
    got = lib_digest_chunked(prim, msg, chunks, off);
    want = ref_digest(prim, msg);
    if (want.empty()) return "C16 internal: reference digest unavailable" + where;
    if (got != want) return "C16 digest differs from the standard function: got " + hex(got) + " want " + hex(want) + where + " msg=" + hex(msg.substr(0, 200));
    // chunking invariance: single update
    Bytes one = lib_digest_chunked(prim, msg, std::vector<size_t>{msg.size()}, (off + 5) & 15);
    if (one != got) return "C16 result depends on how the input is split or aligned" + where;
    if (vfp_has_buf(prim)) {
      Bytes o(vfp_digest_len(prim), '\0');
      Exact e(msg, off);
      vfp_buf(prim, e.p, msg.size(), (unsigned char *)&o[0]);
      if (o != want) return "C16 one-shot *_Buf differs" + where;
    }
    size_t bl = vfp_block_len(prim);
    ctx.st.cls(std::string("c16-residue/") + PRIM_NAME[prim] + "/" + std::to_string(msg.size() % bl));
    bool straddle = false;
    size_t pos = 0;
    for (size_t n : chunks) {
      if (n && pos % bl != 0 && (pos % bl) + n > bl) straddle = true;
      pos += n;
    }
    if (straddle) ctx.st.cls(std::string("c16-straddle/") + PRIM_NAME[prim]);
  } else if (prim == P_HMAC_SHA1) {
    if (key.size() > 200) key.resize(200);
    Exact t(msg, off), k(key, (off + 3) & 15);
    Bytes o(20, '\0');
    vfp_hmac_sha1(t.p, msg.size(), k.p, key.size(), (unsigned char *)&o[0]);
    want = ref::hmac("SHA1", key, msg);
    if (o != want) return "C16 HMAC-SHA1 differs: got " + hex(o) + " want " + hex(want) + where;
    ctx.st.cls(std::string("c16-key/hmac-sha1/") + (key.size() > 64 ? ">block" : key.size() == 64 ? "=block" : "<block"));
  } else if (prim == P_HMAC_SHA256) {
    if (key.size() > 200) key.resize(200);
    void *hc = malloc(vfp_hmac256_ctx_size());
    memset(hc, 0x5A, vfp_hmac256_ctx_size());
    Exact k(key, (off + 3) & 15);
    vfp_hmac256_init(hc, k.p, key.size());
    size_t pos = 0;
    for (size_t n : chunks) {
      Exact e(msg.substr(pos, n), off);
      vfp_hmac256_update(hc, e.p, n);
      pos += n;
    }
    Bytes o(32, '\0');
    vfp_hmac256_final(hc, (unsigned char *)&o[0]);
    free(hc);
    want = ref::hmac("SHA256", key, msg);
    if (o != want) return "C16 HMAC-SHA256 differs: got " + hex(o) + " want " + hex(want) + where;
    Bytes o2(32, '\0');
    Exact e(msg, off);
    vfp_hmac256_buf(k.p, key.size(), e.p, msg.size(), (unsigned char *)&o2[0]);
    if (o2 != want) return "C16 HMAC_SHA256_Buf differs" + where;
    ctx.st.cls(std::string("c16-key/hmac-sha256/") + (key.size() > 64 ? ">block" : key.size() == 64 ? "=block" : "<block"));
  } else if (prim == P_HMAC_GOST) {
    // R 50.1.113-2016 allows keys of 256..512 bits only (the function asserts it; its only caller uses 32)
    size_t kl = 32 + key.size() % 33;
    key.resize(kl, '\x42');
    void *gb = malloc(vfp_gost_hmac_buf_size());
    memset(gb, 0xA5, vfp_gost_hmac_buf_size());
    Exact t(msg, off), k(key, (off + 3) & 15);
    Bytes o(32, '\0');
    vfp_gost_hmac256(k.p, kl, t.p, msg.size(), (unsigned char *)&o[0], gb);
    free(gb);
    want = ref::gcry_hmac(GCRY_MD_STRIBOG256, key, msg);
    if (o != want) return "C16 HMAC-Streebog-256 differs: got " + hex(o) + " want " + hex(want) + where;
    ctx.st.cls("c16-key/hmac-streebog/" + std::to_string(kl));
  } else {
    if (key.size() > 200) key.resize(200);
    if (salt.size() > 100 && !c.has("saltabs")) salt.resize(100);
    uint64_t it = 1 + (uint64_t)c.geti("iters") % 50;
    size_t dk = c.has("dkabs") ? (size_t)c.geti("dkabs") : 1 + (size_t)c.geti("dklen") % 100;
    if (dk < 1) dk = 1;
    if (dk > 8192) dk = 8192;
    if (c.has("saltabs") && salt.size() < (size_t)c.geti("saltabs")) salt.resize((size_t)c.geti("saltabs") > 300 ? 300 : (size_t)c.geti("saltabs"), 's');
    Exact p(key, off), s(salt, (off + 7) & 15);
    Bytes o(dk, '\0');
    Exact ob(o, (off + 1) & 15);
    vfp_pbkdf2_sha256(p.p, key.size(), s.p, salt.size(), it, ob.p, dk);
    o.assign((char *)ob.p, dk);
    Bytes w(dk, '\0');
    ref::init();
    if (PKCS5_PBKDF2_HMAC(key.data(), (int)key.size(), (const unsigned char *)salt.data(), (int)salt.size(), (int)it, EVP_sha256(), (int)dk, (unsigned char *)&w[0]) != 1) return "C16 internal: PKCS5_PBKDF2_HMAC failed";
    if (o != w) return "C16 PBKDF2-HMAC-SHA256 differs: got " + hex(o) + " want " + hex(w) + " [pwlen=" + std::to_string(key.size()) + " saltlen=" + std::to_string(salt.size()) + " c=" + std::to_string(it) + " dkLen=" + std::to_string(dk) + "]";
    ctx.st.cls(std::string("c16-pbkdf2/dk") + (dk <= 32 ? "<=32" : dk <= 64 ? "33-64" : ">64"));
    msg = key + salt;
  }
  if (msg.size() >= 1 || prim >= P_HMAC_SHA1) {
    if (ctx.st.nontriv(fnv(c.serialize())) && ctx.st.samples.size() < ctx.st.sample_cap) ctx.st.sample(std::string(PRIM_NAME[prim]) + " len=" + std::to_string(msg.size()) + " chunks=" + std::to_string(chunks.size()) + " off=" + std::to_string(off) + " keylen=" + std::to_string(key.size()));
    ctx.st.cls(std::string("c16/") + PRIM_NAME[prim]);
  }
  return "";
}

// exhaustive: every length x every two-way split for every digest; every length for the MACs
static int c16_grid(Ctx &ctx) {
  // one huge single update per digest (quick: the three with a 29-bit split in their length counter), one per shard
  if (ctx.shard < (ctx.tier.thorough ? 5 : 3)) {
    for (int head : {0, 100}) {
      KV c;
      c.seti("huge", 1);
      c.seti("prim", ctx.shard);
      c.seti("extra", 1000);
      c.seti("head", head);
      ctx.current(c);
      ctx.st.evaluations++;
      Verdict v = c16_huge(c, ctx);
      if (!v.empty()) {
        ctx.fail(c, v);
        return 1;
      }
      if (!ctx.tier.thorough) break;
    }
  }
  size_t maxlen = ctx.tier.thorough ? 1100 : 290;
  Bytes pool;
  for (size_t i = 0; i < 1200; i++) {
    uint64_t k = i;
    pool.push_back((char)(fnv(&k, sizeof k, ctx.seed) >> 19));
  }
  size_t idx = 0;
  for (int prim = 0; prim < VFP_NDIGEST; prim++)
    for (size_t len = 0; len <= maxlen; len++) {
      if ((idx++ % (size_t)ctx.nshards) != (size_t)ctx.shard) continue;
      Bytes msg = pool.substr((len * 7) % 64, len);
      // the same lengths with extreme contents (one-shot and one split): all 0xff, all 0x00
      for (int ext = 0; ext < 2; ext++) {
        Bytes em(len, ext ? '\0' : '\xff');
        Bytes ew = ref_digest(prim, em);
        ctx.st.evaluations += 2;
        ctx.st.executed += 2;
        if (lib_digest_chunked(prim, em, std::vector<size_t>{len}, len & 15) != ew || lib_digest_chunked(prim, em, std::vector<size_t>{len / 3, len - len / 3}, (len + 3) & 15) != ew) {
          KV c;
          c.seti("prim", prim);
          c.set("msg", em);
          c.seti("off", (long long)(len & 15));
          ctx.current(c);
          ctx.fail(c, std::string("C16 ") + PRIM_NAME[prim] + " differs from the standard function for " + std::to_string(len) + " bytes of " + (ext ? "0x00" : "0xff"));
          return 1;
        }
      }
      Bytes want = ref_digest(prim, msg);
      for (size_t split = 0; split <= len; split++) {
        ctx.st.evaluations++;
        ctx.st.executed++;
        Bytes got = lib_digest_chunked(prim, msg, std::vector<size_t>{split, len - split}, (len + split) & 15);
        if (got != want) {
          KV c;
          c.seti("prim", prim);
          c.set("msg", msg);
          Bytes sp;
          sp.push_back((char)(split & 255));
          sp.push_back((char)(split >> 8));
          c.set("splits", sp);
          c.seti("off", (long long)((len + split) & 15));
          ctx.current(c);
          ctx.fail(c, std::string("C16 ") + PRIM_NAME[prim] + " differs from the standard function at length " + std::to_string(len) + " split " + std::to_string(split));
          return 1;
        }
        if (len >= 1) {
          ctx.st.distinct_by_construction++;
          ctx.st.nontrivial++;
        }
      }
      ctx.st.cls(std::string("c16-grid-residue/") + PRIM_NAME[prim] + "/" + std::to_string(len % vfp_block_len(prim)));
    }
  // PBKDF2: salt length 0..130 x iteration counts x output lengths 1..100 and the multiples of 32 its callers use
  // (yescrypt/scrypt call it with c = 1 and dkLen = 128*r*p).  Quick: c in {1,2,3,50}; thorough: every c in 1..50.
  {
    std::vector<long long> its;
    if (ctx.tier.thorough) for (long long i = 0; i < 50; i++) its.push_back(i);
    else its = {0, 1, 2, 49};
    std::vector<long long> dks;
    for (long long d = 1; d <= 100; d++) dks.push_back(d);
    for (long long d : {128, 160, 256, 384, 1024, 4096}) dks.push_back(d);
    for (long long sl = 0; sl <= 130; sl++)
      for (long long it : its) {
        if ((idx++ % (size_t)ctx.nshards) != (size_t)ctx.shard) continue;
        for (long long dk : dks) {
          if (it >= 3 && dk > 100) continue;
          KV c;
          c.seti("prim", P_PBKDF2);
          c.set("key", pool.substr(300 + (size_t)(sl * 7 + dk) % 90, (size_t)((sl * 3 + dk) % 201)));
          c.set("salt", pool.substr(600, (size_t)sl));
          c.seti("saltabs", sl);
          c.seti("iters", it);
          c.seti("dkabs", dk);
          c.seti("off", (sl + dk) & 15);
          ctx.st.evaluations++;
          Verdict v = c16_check(c, ctx);
          if (!v.empty()) {
            ctx.current(c);
            ctx.fail(c, v);
            return 1;
          }
        }
      }
  }
  // MACs and PBKDF2: every message length 0..maxlen/every key length 0..200
  for (int prim = P_HMAC_SHA1; prim < P_COUNT; prim++)
    for (size_t len = 0; len <= (prim == P_PBKDF2 ? 200 : maxlen); len++) {
      if ((idx++ % (size_t)ctx.nshards) != (size_t)ctx.shard) continue;
      KV c;
      c.seti("prim", prim);
      c.set("msg", pool.substr(len % 50, len));
      c.set("key", pool.substr(300 + len % 90, len % 201));
      c.set("salt", pool.substr(600, len % 101));
      c.seti("iters", (long long)len);
      c.seti("dklen", (long long)(len * 3));
      c.seti("off", (long long)(len & 15));
      Bytes sp;
      sp.push_back((char)((len / 3) & 255));
      sp.push_back((char)((len / 3) >> 8));
      c.set("splits", sp);
      ctx.st.evaluations++;
      Verdict v = c16_check(c, ctx);
      if (!v.empty()) {
        ctx.current(c);
        ctx.fail(c, v);
        return 1;
      }
    }
  return 0;
}

// ---- C17 ------------------------------------------------------------------------------------
struct DesApi {
  void *h = nullptr;
  void (*setkey)(const char *) = nullptr;
  void (*encrypt)(char *, int) = nullptr;
  void (*setkey_r)(const char *, void *) = nullptr;
  void (*encrypt_r)(char *, int, void *) = nullptr;
  char *(*crypt)(const char *, const char *) = nullptr;
  char *(*crypt_r)(const char *, const char *, void *) = nullptr;
  static DesApi &get() {
    static DesApi a;
    static bool init = false;
    if (!init) {
      init = true;
      const char *p = getenv("VF_SHARED_LIB");
      if (p) a.h = dlopen(p, RTLD_NOW | RTLD_LOCAL);
      if (a.h) {
        a.setkey = (decltype(a.setkey))dlvsym(a.h, "setkey", "GLIBC_2.2.5");
        a.encrypt = (decltype(a.encrypt))dlvsym(a.h, "encrypt", "GLIBC_2.2.5");
        a.setkey_r = (decltype(a.setkey_r))dlvsym(a.h, "setkey_r", "GLIBC_2.2.5");
        a.encrypt_r = (decltype(a.encrypt_r))dlvsym(a.h, "encrypt_r", "GLIBC_2.2.5");
        a.crypt = (decltype(a.crypt))dlsym(a.h, "crypt");
        a.crypt_r = (decltype(a.crypt_r))dlsym(a.h, "crypt_r");
      }
    }
    return a;
  }
  bool ok() const { return setkey && encrypt && setkey_r && encrypt_r && crypt && crypt_r; }
};

// expand 8 bytes to the 64-byte vector form; `garbage` fills the upper 7 bits of each byte
static void to_vec(const unsigned char b[8], char v[64], const Bytes &garbage, size_t goff) {
  for (int i = 0; i < 64; i++) {
    int bit = (b[i / 8] >> (7 - i % 8)) & 1;
    unsigned char g = garbage.empty() ? 0 : (unsigned char)garbage[(goff + (size_t)i) % garbage.size()];
    v[i] = (char)((g & 0xfe) | bit);
  }
}
static bool from_vec(const char v[64], unsigned char b[8]) {
  bool clean = true;
  memset(b, 0, 8);
  for (int i = 0; i < 64; i++) {
    if (v[i] != 0 && v[i] != 1) clean = false;
    b[i / 8] = (unsigned char)(b[i / 8] | ((v[i] & 1) << (7 - i % 8)));
  }
  return clean;
}

static Verdict des_core_one(const unsigned char key[8], const unsigned char blk[8], uint32_t salt, unsigned count, bool decrypt, Ctx &ctx) {
  void *dc = malloc(vfp_des_ctx_size());
  memset(dc, 0xA5, vfp_des_ctx_size());
  vfp_des_set_key(dc, key);
  vfp_des_set_salt(dc, salt);
  unsigned char out[8], want[8];
  vfp_des_crypt_block(dc, out, blk, count, decrypt);
  ctx.st.executed++;
  ref::des::crypt_bytes(key, salt, count, blk, want, decrypt);
  std::string where = " [key=" + hex(Bytes((const char *)key, 8)) + " block=" + hex(Bytes((const char *)blk, 8)) + " salt=" + std::to_string(salt) + " count=" + std::to_string(count) + (decrypt ? " decrypt" : " encrypt") + "]";
  if (memcmp(out, want, 8)) {
    free(dc);
    return "C17 DES block function differs from FIPS 46-3 (bit-level reference): got " + hex(Bytes((char *)out, 8)) + " want " + hex(Bytes((char *)want, 8)) + where;
  }
  if (salt == 0 && count == 1) {
    // plain DES: compare with OpenSSL as a second opinion
    DES_cblock k, in, o;
    memcpy(k, key, 8);
    memcpy(in, blk, 8);
    DES_key_schedule ks;
    DES_set_key_unchecked(&k, &ks);
    DES_ecb_encrypt(&in, &o, &ks, decrypt ? DES_DECRYPT : DES_ENCRYPT);
    if (memcmp(out, o, 8)) {
      free(dc);
      return "C17 salt 0 / count 1 does not reduce to plain DES (OpenSSL DES_ecb_encrypt): got " + hex(Bytes((char *)out, 8)) + " want " + hex(Bytes((char *)o, 8)) + where;
    }
  }
  // inverse
  unsigned char back[8];
  vfp_des_crypt_block(dc, back, out, count, !decrypt);
  free(dc);
  if (memcmp(back, blk, 8)) return "C17 decryption does not invert encryption" + where;
  // parity bits of the key are ignored
  unsigned char k2[8];
  for (int i = 0; i < 8; i++) k2[i] = key[i] ^ 1;
  void *dc2 = malloc(vfp_des_ctx_size());
  vfp_des_set_key(dc2, k2);
  vfp_des_set_salt(dc2, salt);
  unsigned char out2[8];
  vfp_des_crypt_block(dc2, out2, blk, count, decrypt);
  free(dc2);
  if (memcmp(out, out2, 8)) return "C17 key parity bits influence the result" + where;
  return "";
}

static int weight(const unsigned char b[8]) {
  int w = 0;
  for (int i = 0; i < 8; i++) w += __builtin_popcount(b[i]);
  return w;
}

// ops: history over the obsolete API.  Encoded as a byte string: [op, arg...]
static Verdict c17_check(const KV &c, Ctx &ctx) {
  if (c.has("hist")) {
    DesApi &A = DesApi::get();
    if (!A.ok()) return "C17 internal: the obsolete DES API could not be resolved in the freshly built shared library";
    const Bytes &h = c.get("hist");
    const Bytes &garb = c.get("garbage");
    // model
    bool skey_set = false;
    unsigned char skey[8] = {0};
    struct Obj { void *p; bool set; unsigned char key[8]; } objs[2];
    for (auto &o : objs) {
      // the caller's object may hold anything (previous use, uninitialised heap) when setkey_r is called
      o.p = malloc(32768 + 16);
      for (size_t k = 0; k < 32768 + 16; k++) ((unsigned char *)o.p)[k] = garb.empty() ? 0 : (unsigned char)garb[k % garb.size()];
      o.set = false;
    }
    size_t objoff[2] = {garb.empty() ? 0u : (size_t)(garb[0] & 15), garb.size() < 2 ? 9u : (size_t)(garb[1] & 15)};
    size_t i = 0;
    int nenc = 0, ncrypt_between = 0;
    bool interleaved = false;
    Verdict v;
    while (i + 17 <= h.size() && v.empty()) {
      int op = (unsigned char)h[i] % 8;
      int oi = ((unsigned char)h[i] >> 3) & 1;
      const unsigned char *arg = (const unsigned char *)h.data() + i + 1;  // 8 bytes key/block + 8 spare
      i += 17;
      char vec[64];
      switch (op) {
        case 0: to_vec(arg, vec, garb, i); A.setkey(vec); memcpy(skey, arg, 8); skey_set = true; ncrypt_between = 0; break;
        case 1: to_vec(arg, vec, garb, i); A.setkey_r(vec, (char *)objs[oi].p + objoff[oi]); memcpy(objs[oi].key, arg, 8); objs[oi].set = true; break;
        case 2: case 3: {
          bool stat = op == 2;
          // encrypt(3): "if edflag is 0 the block is encrypted, otherwise decrypted" - any non-zero value decrypts
          static const int EDFLAG[] = {0, 1, 0, 1, 0, 1, 2, -1, 4, 255, 256, 0x10000, (int)0x80000000u, 0x7ffffffe, -2, 42};
          int edflag = EDFLAG[arg[9] & 15];
          bool dec = edflag != 0;
          if (stat ? !skey_set : !objs[oi].set) break;
          to_vec(arg, vec, garb, i + 1);
          if (stat) A.encrypt(vec, edflag); else A.encrypt_r(vec, edflag, (char *)objs[oi].p + objoff[oi]);
          if (edflag != 0 && edflag != 1) ctx.st.cls("c17/edflag-other-nonzero");
          unsigned char got[8], want[8];
          bool clean = from_vec(vec, got);
          ref::des::crypt_bytes(stat ? skey : objs[oi].key, 0, 1, arg, want, dec);
          ctx.st.executed++;
          nenc++;
          if (stat && ncrypt_between) interleaved = true;
          std::string where = std::string(stat ? " [encrypt" : " [encrypt_r") + " key=" + hex(Bytes((char *)(stat ? skey : objs[oi].key), 8)) + " block=" + hex(Bytes((const char *)arg, 8)) + (dec ? " decrypt (edflag " + std::to_string(edflag) + ")" : " encrypt") + " after " + std::to_string(ncrypt_between) + " crypt calls]";
          if (!clean) v = "C17 encrypt left bytes other than 0/1 in the block" + where;
          else if (memcmp(got, want, 8)) v = "C17 " + std::string(stat ? "setkey/encrypt" : "setkey_r/encrypt_r") + " differs from FIPS 46-3 DES: got " + hex(Bytes((char *)got, 8)) + " want " + hex(Bytes((char *)want, 8)) + where;
          break;
        }
        case 4: case 5: {
          // crypt calls in between (static state of crypt must not disturb the static DES key)
          static const char *S[] = {"ab", "_J9..salt", "$1$salt$", "$3$", "$5$rounds=1000$s", "xy............", "*bad", "$2b$04$abcdefghijklmnopqrstuu"};
          char ph[9];
          memcpy(ph, arg, 8);
          ph[8] = 0;
          for (int k = 0; k < 8; k++) if (!ph[k]) ph[k] = 'x';
          (void)A.crypt(ph, S[arg[8] % 8]);
          ncrypt_between++;
          break;
        }
        default: {
          static const char *S[] = {"ab", "_J9..salt", "$1$salt$", "$3$"};
          (void)A.crypt_r("phrase", S[arg[8] % 4], (char *)objs[oi].p + objoff[oi]);
          objs[oi].set = false;  // crypt_r erases the object's scratch area, including a key schedule stored there
          break;
        }
      }
    }
    for (auto &o : objs) free(o.p);
    if (!v.empty()) return v;
    if (nenc) {
      if (ctx.st.nontriv(fnv(h)) && ctx.st.samples.size() < ctx.st.sample_cap) ctx.st.sample("history of " + std::to_string(h.size() / 17) + " ops with " + std::to_string(nenc) + " checked encrypt calls" + (interleaved ? ", crypt interleaved between setkey and encrypt" : ""));
      ctx.st.cls(interleaved ? "c17-hist/interleaved" : "c17-hist/plain");
    }
    return "";
  }
  Bytes key = c.get("key"), blk = c.get("block");
  key.resize(8, '\0');
  blk.resize(8, '\0');
  uint32_t salt = (uint32_t)c.getu("salt") & 0xffffff;
  unsigned count = (unsigned)c.getu("count", 1);
  if (count > 60) count = 1 + count % 60;
  bool dec = c.geti("decrypt") != 0;
  Verdict v = des_core_one((const unsigned char *)key.data(), (const unsigned char *)blk.data(), salt, count, dec, ctx);
  if (!v.empty()) return v;
  int wk = weight((const unsigned char *)key.data()), wb = weight((const unsigned char *)blk.data());
  if (ctx.st.nontriv(fnv(key + blk + std::to_string(salt) + "/" + std::to_string(count))) && ctx.st.samples.size() < ctx.st.sample_cap) ctx.st.sample("key=" + hex(key) + " block=" + hex(blk) + " salt=" + std::to_string(salt) + " count=" + std::to_string(count));
  ctx.st.cls(std::string("c17/") + (salt == 0 && count == 1 ? "plain" : salt == 0 ? "iterated" : "salted") + (dec ? "/dec" : "/enc"));
  ctx.st.cls(std::string("c17-weight/key") + (wk <= 1 ? "<=1" : wk >= 63 ? ">=63" : "mid") + "/blk" + (wb <= 1 ? "<=1" : wb >= 63 ? ">=63" : "mid"));
  return "";
}

// exhaustive: all weight-1 and weight-63 keys x blocks, both directions, plain DES; salts: every single salt bit
static int c17_grid(Ctx &ctx) {
  std::vector<Bytes> vals;
  for (int inv = 0; inv < 2; inv++)
    for (int bit = 0; bit < 64; bit++) {
      Bytes b(8, inv ? '\xff' : '\0');
      b[(size_t)bit / 8] = (char)(b[(size_t)bit / 8] ^ (0x80 >> (bit % 8)));
      vals.push_back(b);
    }
  size_t idx = 0;
  for (const Bytes &k : vals)
    for (const Bytes &b : vals)
      for (int dec = 0; dec < 2; dec++) {
        if ((idx++ % (size_t)ctx.nshards) != (size_t)ctx.shard) continue;
        ctx.st.evaluations++;
        Verdict v = des_core_one((const unsigned char *)k.data(), (const unsigned char *)b.data(), 0, 1, dec, ctx);
        if (v.empty() && (idx % 7) == 0) {
          uint32_t s = 1u << (idx % 24);
          v = des_core_one((const unsigned char *)k.data(), (const unsigned char *)b.data(), s, 1 + (unsigned)(idx % 3), dec, ctx);
        }
        if (!v.empty()) {
          KV c;
          c.set("key", k);
          c.set("block", b);
          c.seti("decrypt", dec);
          ctx.current(c);
          ctx.fail(c, v);
          return 1;
        }
        ctx.st.distinct_by_construction++;
        ctx.st.nontrivial++;
      }
  ctx.st.cls("c17-grid/weight1-63");
  return 0;
}

#ifndef VF_NO_RC
static int c16_run(Ctx &ctx) {
  return run_rc_generic(ctx, "C16", c16_check, [&]() {
    KV c;
    int prim = (int)g::pick(0, P_COUNT - 1);
    c.seti("prim", prim);
    size_t len = g::coin(1, 4) ? (size_t)g::pick(0, 1100) : g::coin() ? (size_t)g::pick(0, 300) : (size_t)g::oneof<int>({0, 1, 55, 56, 57, 63, 64, 65, 111, 112, 113, 119, 120, 127, 128, 129, 183, 184, 191, 192, 239, 240, 255, 256, 257, 511, 512, 1023, 1024, 1025});
    {
      // content: random, all 0x00, all 0xff, random with an aligned run of 0xff / 0x00 (carry chains, padding look-alikes)
      int cs = g::wpick({8, 1, 2, 3, 1});
      Bytes m = cs == 1 ? Bytes(len, '\0') : cs == 2 ? Bytes(len, '\xff') : g::rbytes(len, 0);
      if ((cs == 3 || cs == 4) && len >= 8) {
        size_t at = (size_t)g::pick(0, (long long)len - 8) & ~(size_t)7, rl = (size_t)g::pick(8, 128);
        for (size_t i = at; i < len && i < at + rl; i++) m[i] = cs == 3 ? '\xff' : '\0';
      }
      c.set("msg", m);
    }
    int nch = g::wpick({3, 4, 3});
    Bytes sp;
    size_t n = nch == 0 ? 1 : nch == 1 ? 2 : (size_t)g::pick(3, 12);
    for (size_t i = 0; i + 1 < n; i++) {
      size_t k = g::coin(1, 6) ? 0 : (size_t)g::pick(0, (long long)(len ? len : 1));
      if (g::coin(1, 3)) k = (size_t)g::pick(0, 130);
      sp.push_back((char)(k & 255));
      sp.push_back((char)(k >> 8));
    }
    c.set("splits", sp);
    size_t kl = g::coin(1, 3) ? (size_t)g::oneof<int>({0, 1, 20, 32, 63, 64, 65, 127, 128, 129, 200}) : (size_t)g::pick(0, 200);
    c.set("key", g::rbytes(kl, 0));
    c.set("salt", g::rbytes((size_t)g::pick(0, 100), 0));
    c.seti("iters", g::coin(1, 3) ? 0 : g::pick(0, 49));
    c.seti("dklen", g::pick(0, 99));
    if (prim == P_PBKDF2 && g::coin(1, 2)) {
      c.seti("dkabs", 32 * g::pick(1, 64));
      c.seti("saltabs", g::pick(0, 200));
    }
    c.seti("off", g::pick(0, 15));
    if (prim < 5 && g::coin(1, 4)) {
      // long message by resumption: the bytes already hashed sit just below a length-counter word boundary (2^29 bytes
      // = 2^32 bits, 2^32 bytes, 2^61 bytes = 2^64 bits) or anywhere
      static const int SH[] = {29, 32, 35, 61, 29, 29};
      uint64_t B = 1ULL << SH[g::pick(0, 5)];
      uint64_t back = (uint64_t)g::pick(0, 9) * (prim == 4 ? 128 : 64);
      uint64_t lo = g::coin(3, 4) ? B - back : g::u64();
      if (prim != 4 && lo >= (1ULL << 61)) lo = (1ULL << 29) - back;
      c.setu("before_lo", lo);
      c.setu("before_hi", g::coin(1, 3) ? (unsigned long long)g::pick(1, 1000000) : 0);
      c.set("state", g::rbytes(64, 0));
    }
    return c;
  });
}
static int c17_run(Ctx &ctx) {
  return run_rc_generic(ctx, "C17", c17_check, [&]() {
    KV c;
    if (g::coin(1, 4)) {
      // history over the obsolete API
      size_t n = (size_t)g::pick(3, 40);
      Bytes h, lastkey;
      for (size_t i = 0; i < n; i++) {
        int op = g::wpick({3, 2, 5, 3, 2, 1, 1, 1});
        h.push_back((char)(op | ((int)g::pick(0, 1) << 3)));
        Bytes a = g::rbytes(16, 0);
        if (op <= 1) {
          // the same key is often given again - to the other interface, to another object, or after a crypt call
          if (!lastkey.empty() && g::coin(2, 5)) a.replace(0, 8, lastkey);
          lastkey = a.substr(0, 8);
        }
        h += a;
      }
      c.set("hist", h);
      c.set("garbage", g::coin(1, 3) ? Bytes() : g::rbytes(67, 0));
      return c;
    }
    auto val = []() {
      int k = g::wpick({6, 1, 1, 1});
      Bytes b = g::rbytes(8, 0);
      if (k == 1) { b = Bytes(8, '\0'); b[(size_t)g::pick(0, 7)] = (char)(1 << g::pick(0, 7)); }
      else if (k == 2) { b = Bytes(8, '\xff'); b[(size_t)g::pick(0, 7)] = (char)~(1 << g::pick(0, 7)); }
      else if (k == 3) b = Bytes(8, g::coin() ? '\0' : '\xff');
      return b;
    };
    c.set("key", val());
    c.set("block", val());
    int sk = g::wpick({3, 3, 2});
    c.setu("salt", sk == 0 ? 0 : sk == 1 ? (unsigned long long)g::pick(0, 0xffffff) : (1ULL << g::pick(0, 23)));
    c.setu("count", g::coin(1, 2) ? 1 : (unsigned long long)g::pick(1, 50));
    c.seti("decrypt", g::pick(0, 1));
    return c;
  });
}
#else
#define c16_run nullptr
#define c17_run nullptr
#endif

static Prop PROPS[] = {
  {"C16", c16_check, c16_run, c16_grid},
  {"C17", c17_check, c17_run, c17_grid},
};

int main(int argc, char **argv) { return vf_main(argc, argv, PROPS, sizeof PROPS / sizeof *PROPS); }
