/* Compiled against the FRESH tree's generated crypt.h (csrcs): exports the layout
   and constants a client would compile in, for comparison with the released header. */
#include <crypt.h>
#include <stddef.h>
struct vf_layout_entry { const char *name; long value; };
#define E(n, v) {n, (long)(v)}
const struct vf_layout_entry vf_fresh_layout[] = {
  E("sizeof(struct crypt_data)", sizeof(struct crypt_data)),
  E("offsetof(output)", offsetof(struct crypt_data, output)),
  E("offsetof(setting)", offsetof(struct crypt_data, setting)),
  E("offsetof(input)", offsetof(struct crypt_data, input)),
  E("offsetof(reserved)", offsetof(struct crypt_data, reserved)),
  E("offsetof(initialized)", offsetof(struct crypt_data, initialized)),
  E("offsetof(internal)", offsetof(struct crypt_data, internal)),
  E("sizeof(output)", sizeof(((struct crypt_data *)0)->output)),
  E("sizeof(setting)", sizeof(((struct crypt_data *)0)->setting)),
  E("sizeof(input)", sizeof(((struct crypt_data *)0)->input)),
  E("sizeof(reserved)", sizeof(((struct crypt_data *)0)->reserved)),
  E("sizeof(initialized)", sizeof(((struct crypt_data *)0)->initialized)),
  E("sizeof(internal)", sizeof(((struct crypt_data *)0)->internal)),
  E("CRYPT_OUTPUT_SIZE", CRYPT_OUTPUT_SIZE),
  E("CRYPT_MAX_PASSPHRASE_SIZE", CRYPT_MAX_PASSPHRASE_SIZE),
  E("CRYPT_GENSALT_OUTPUT_SIZE", CRYPT_GENSALT_OUTPUT_SIZE),
  E("CRYPT_DATA_RESERVED_SIZE", CRYPT_DATA_RESERVED_SIZE),
  E("CRYPT_DATA_INTERNAL_SIZE", CRYPT_DATA_INTERNAL_SIZE),
  E("CRYPT_SALT_OK", CRYPT_SALT_OK),
  E("CRYPT_SALT_INVALID", CRYPT_SALT_INVALID),
  E("CRYPT_SALT_METHOD_DISABLED", CRYPT_SALT_METHOD_DISABLED),
  E("CRYPT_SALT_METHOD_LEGACY", CRYPT_SALT_METHOD_LEGACY),
  E("CRYPT_SALT_TOO_CHEAP", CRYPT_SALT_TOO_CHEAP),
  E("CRYPT_GENSALT_IMPLEMENTS_DEFAULT_PREFIX", CRYPT_GENSALT_IMPLEMENTS_DEFAULT_PREFIX),
  E("CRYPT_GENSALT_IMPLEMENTS_AUTO_ENTROPY", CRYPT_GENSALT_IMPLEMENTS_AUTO_ENTROPY),
  {0, 0}
};
