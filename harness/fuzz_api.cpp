// libFuzzer target over the whole public API with the C04 / C05 oracles inside.
// Build: clang++ -fsanitize=fuzzer,address,undefined.  VF_OUT = directory for
// counters and the verdict of a failing input, VF_PROP = C04 | C05.
#include "apicall.hpp"
#include "fuzz_decode.hpp"

using namespace vf;

static Stats *g_st;
static std::string g_out;
static bool g_c05;
static Tier g_tier;

static void flush_stats() {
  if (g_st) g_st->flush();
}

extern "C" int LLVMFuzzerInitialize(int *, char ***) {
  g_st = new Stats();
  const char *o = getenv("VF_OUT");
  g_out = o ? o : "";
  g_st->outdir = g_out;
  const char *p = getenv("VF_PROP");
  g_c05 = p && !strcmp(p, "C05");
  const char *b = getenv("VF_BUDGET_MS");
  g_tier.budget_ms = b ? atol(b) : 40;
  atexit(flush_stats);
  return 0;
}

static void report(const Bytes &raw, const Verdict &v) {
  if (!g_out.empty()) {
    KV c;
    c.set("fuzzraw", raw);
    write_file(g_out + "/fail.case", "# " + v + "\n" + c.serialize());
  }
  fprintf(stderr, "VF-VERDICT %s\n", v.c_str());
  flush_stats();
  __builtin_trap();
}

extern "C" int LLVMFuzzerTestOneInput(const uint8_t *data, size_t size) {
  Bytes raw((const char *)data, size);
  KV c = fuzz_decode(raw);
  ApiCase a = api_from_kv(c);
  Stats &st = *g_st;
  st.evaluations++;
  if (a.entry <= E_CRYPT_RA && !a.phrase_null && !a.setting_null && a.phrase.size() < 512 && passwd_safe(a.setting)) {
    Cost k = decode_cost(a.setting, a.phrase.size());
    k.units *= 2.5;
    if (!affordable(k, g_tier)) {
      st.skipped_cost++;
      return 0;
    }
  }
  ApiObs o1 = api_execute(a, a.fill);
  st.executed++;
  if (g_c05) {
    if (a.entry > E_CRYPT_RA) return 0;
    bool failed = false;
    Verdict v = c05_oracle(a, o1, &failed);
    if (v.empty() && !o1.problem.empty()) v = "C05 " + o1.problem + " in " + api_describe(a);
    if (!v.empty()) report(raw, v);
    if (failed) {
      std::string why;
      if (!api_must_fail(a, why)) why = "method-rejected";
      if (why.compare(0, 20, "malformed-parameters") == 0) why = "malformed-parameters";
      st.cls("c05-fuzz/" + why + "/" + ENTRY_NAME[a.entry]);
      if (st.nontriv(fnv(c.serialize())) && st.samples.size() < st.sample_cap) st.sample("fuzz: " + api_describe(a) + " -> fails, errno " + std::to_string(o1.err));
    }
  } else {
    ApiObs o2 = api_execute(a, (a.fill + 1) & 3);
    st.executed++;
    Verdict v = c04_oracle(a, o1, o2);
    if (!v.empty()) report(raw, v);
    bool reached;
    Method m = M_NONE;
    if (a.entry <= E_CRYPT_RA) {
      m = a.setting_null ? M_NONE : result_method(a.setting, a.phrase.size());
      reached = api_passes_validation(a) && (a.entry == E_CRYPT || o1.wiped || o2.wiped);
    } else if (a.entry != E_CHECKSALT) {
      m = a.setting_null ? M_YESCRYPT : classify_prefix(a.setting);
      reached = m != M_NONE && a.output_size >= 3;
    } else
      reached = true;
    if (reached) {
      st.cls(std::string("c04-fuzz/") + ENTRY_NAME[a.entry] + "/" + METHOD_NAME[m]);
      if (st.nontriv(fnv(c.serialize())) && st.samples.size() < st.sample_cap) st.sample("fuzz: " + api_describe(a) + " -> " + (o1.returned_null ? "NULL errno " + std::to_string(o1.err) : "\"" + vis(o1.ret, 60) + "\""));
    }
  }
  if ((st.evaluations & 0x3fff) == 0) st.flush(false);
  return 0;
}
