// crypt_gensalt* properties: C10 (accepted and kept), C11 (documented cost),
// C12 (salts carry the randomness), C13 (output_size honoured).
#include <signal.h>
#include <sys/time.h>
#include <sys/wait.h>

#include "api.hpp"
#include "main.hpp"
#include "methods.hpp"
#include "ref/ref.hpp"
#ifndef VF_NO_RC
#include "gen.hpp"
#endif

using namespace vf;

// ---- expectation model (crypt_gensalt(3), crypt(5), property statements) -------------
struct GsExpect {
  bool accept = false;      // count accepted (given enough random bytes and space)
  uint64_t lo = 0, hi = 0;  // accepted: range of the encoded linear cost
  int log2 = 0;             // bcrypt cost
  uint64_t N = 0, r = 0;    // (ye)scrypt
  bool rounds_field = true; // sha2: false when the default is encoded by omission
};
static GsExpect gs_expect(Method m, unsigned long count) {
  GsExpect e;
  auto clampu = [](uint64_t v, uint64_t lo, uint64_t hi) { return v < lo ? lo : v > hi ? hi : v; };
  switch (m) {
    case M_MD5: case M_NT: case M_DES: case M_BIG:
      e.accept = count == 0;
      e.lo = e.hi = (m == M_MD5 ? 1000 : m == M_NT ? 1 : 25);
      break;
    case M_BF_X: e.accept = false; break;
    case M_BF_A: case M_BF_B: case M_BF_Y:
      if (count == 0) count = 5;
      e.accept = count >= 4 && count <= 31;
      e.log2 = (int)count;
      break;
    case M_YESCRYPT: case M_GOST:
      if (count == 0) count = 5;
      e.accept = count >= 1 && count <= 11;
      if (e.accept) {
        if (count <= 2) { e.N = 1ULL << (count + 9); e.r = 8; }
        else { e.N = 1ULL << (count + 7); e.r = 32; }
      }
      break;
    case M_SCRYPT:
      if (count == 0) count = 7;
      e.accept = count >= 6 && count <= 11;
      if (e.accept) { e.N = 1ULL << (count + 7); e.r = 32; }
      break;
    case M_SHA256: case M_SHA512: {
      uint64_t c = count == 0 ? 5000 : clampu(count, 1000, 999999999ULL);
      e.accept = true;
      e.lo = e.hi = c;
      e.rounds_field = c != 5000;
      break;
    }
    case M_BSDI: {
      uint64_t c = count == 0 ? 725 : count;
      if (c > 0xffffff) c = 0xffffff;
      c |= 1;
      e.accept = true;
      e.lo = e.hi = c;
      break;
    }
    case M_SHA1: {
      uint64_t c = count == 0 ? 262144 : clampu(count, 4, 0xffffffffULL);
      e.accept = true;
      e.hi = c;
      e.lo = c - c / 4 + 1;
      break;
    }
    case M_SUNMD5: {
      uint64_t lo = clampu(count, 32768, 0xffffffffULL - 65536);
      e.accept = true;
      e.lo = lo;
      e.hi = lo + 65535;
      break;
    }
    default: break;
  }
  return e;
}
// fewest random bytes that can fill one group of the method's salt packing
static size_t gs_min_rbytes(Method m) {
  switch (m) {
    case M_DES: case M_BIG: return 2;
    case M_BSDI: case M_MD5: case M_SHA256: case M_SHA512: return 3;
    case M_SUNMD5: return 8;
    case M_NT: return 0;
    default: return 16;
  }
}
static Method preferred_model() { return M_YESCRYPT; }  // statement: yescrypt > bcrypt > sha512crypt

struct GsCall {
  bool ok = false;
  Bytes out;
  int err = 0;
  Bytes field;  // buffer contents (as a C string) after the call
};
// exact-size heap blocks for rbytes and output
static GsCall gs_rn(const Bytes *prefix, unsigned long count, const Bytes *rb, int nrbytes, int size) {
  GsCall r;
  char *rbuf = nullptr;
  if (rb) {
    rbuf = (char *)malloc(rb->size() ? rb->size() : 1);
    memcpy(rbuf, rb->data(), rb->size());
  }
  size_t alloc = size > 0 ? (size_t)size : 1;
  char *obuf = (char *)malloc(alloc);
  memset(obuf, 0x7e, alloc);
  errno = 0;
  char *p = crypt_gensalt_rn(prefix ? prefix->c_str() : nullptr, count, rbuf, nrbytes, obuf, size);
  r.err = errno;
  if (size > 0) r.field.assign(obuf, strnlen(obuf, (size_t)size));
  if (p) {
    r.ok = true;
    r.out.assign(p, strnlen(p, alloc));
    if (p != obuf) r.err = -1;  // must return the caller's buffer
  } else if (size <= 0 && obuf[0] != 0x7e)
    r.err = -2;  // wrote although size <= 0
  free(obuf);
  free(rbuf);
  return r;
}

static Method prefix_method(bool isnull, const Bytes &prefix) {
  if (isnull) return preferred_model();
  if (!passwd_safe(prefix)) {
    // crypt_gensalt only looks at the tag; ill-charactered prefixes still select by tag
    return classify_prefix(prefix);
  }
  return classify_prefix(prefix);
}

// validity conditions shared by C10 / C13 for a successful result s
static Verdict gs_valid(const char *id, Method m, const Bytes &s, int limit) {
  std::string I = id;
  if ((int)s.size() >= limit) return I + " generated setting not shorter than " + std::to_string(limit) + ": " + vis(s, 300);
  if (s.empty()) return I + " empty generated setting";
  if (!passwd_safe(s)) return I + " generated setting is not passwd(5)-safe: " + vis(s, 300);
  Method ms = classify_prefix(s);
  bool same = (ms == m) || ((m == M_DES || m == M_BIG) && ms == M_DES);
  if (!same) return I + " generated setting does not begin with the selected method's tag (" + METHOD_NAME[m] + "): " + vis(s, 200);
  if (crypt_checksalt(s.c_str()) == CRYPT_SALT_INVALID) return I + " crypt_checksalt rejects the generated setting " + vis(s, 200);
  return "";
}

static std::string count_class(Method m, unsigned long count) {
  GsExpect e = gs_expect(m, count);
  if (count == 0) return "default";
  if (!e.accept) return count > 1000 ? "reject-huge" : "reject";
  if (count > 0xffffffffUL) return "accept-huge";
  return "accept";
}

// run crypt_rn in a child with a wall-clock limit; returns 1 finished ok, 0 finished fail, -1 killed by limit
static int hash_with_limit_ms(const Bytes &P, const Bytes &S, int ms, Bytes &out, int *err = nullptr) {
  int fd[2];
  if (pipe(fd)) return -1;
  pid_t pid = fork();
  if (pid == 0) {
    close(fd[0]);
    struct itimerval it;
    memset(&it, 0, sizeof it);
    it.it_value.tv_sec = ms / 1000;
    it.it_value.tv_usec = (ms % 1000) * 1000;
    setitimer(ITIMER_REAL, &it, nullptr);
    HashRes h = hash_rn(P, S);
    std::string msg = (h.ok ? "1" : "0") + std::to_string(h.err) + ":" + h.out;
    (void)!write(fd[1], msg.data(), msg.size());
    _exit(0);
  }
  close(fd[1]);
  std::string buf;
  char t[512];
  ssize_t n;
  while ((n = read(fd[0], t, sizeof t)) > 0) buf.append(t, (size_t)n);
  close(fd[0]);
  int st = 0;
  waitpid(pid, &st, 0);
  if (WIFSIGNALED(st) && WTERMSIG(st) == SIGALRM) return -1;
  if (buf.empty()) return -1;  // the child died otherwise: not a statement about the setting
  size_t colon = buf.find(':');
  if (colon == std::string::npos) return -1;
  if (err) *err = atoi(buf.substr(1, colon - 1).c_str());
  out = buf.substr(colon + 1);
  return buf[0] == '1' ? 1 : 0;
}
static int hash_with_limit(const Bytes &P, const Bytes &S, int seconds, Bytes &out) { return hash_with_limit_ms(P, S, seconds * 1000, out); }

// ---------------------------------------------------------------------------
// C10
static Verdict c10_check(const KV &c, Ctx &ctx) {
  bool isnull = c.geti("prefix_null") != 0;
  Bytes prefix = c.get("prefix");
  if (memchr(prefix.data(), 0, prefix.size())) return "";
  unsigned long count = (unsigned long)c.getu("count");
  Bytes rb = c.get("rbytes");
  Bytes P = c.get("phrase");
  if (memchr(P.data(), 0, P.size()) || P.size() > 511) return "";
  int size = (int)c.geti("size", CRYPT_GENSALT_OUTPUT_SIZE);
  if (size < CRYPT_GENSALT_OUTPUT_SIZE) size = CRYPT_GENSALT_OUTPUT_SIZE;
  Method m = prefix_method(isnull, prefix);
  // The three entry points are compared at the documented size (crypt_gensalt and crypt_gensalt_ra use a
  // CRYPT_GENSALT_OUTPUT_SIZE buffer); a larger buffer must give the same string whenever that size succeeds.
  GsCall g = gs_rn(isnull ? nullptr : &prefix, count, &rb, (int)rb.size(), CRYPT_GENSALT_OUTPUT_SIZE);
  ctx.st.executed++;
  if (g.err < 0) return "C10 crypt_gensalt_rn did not return the caller's buffer";
  if (size > CRYPT_GENSALT_OUTPUT_SIZE) {
    GsCall gl = gs_rn(isnull ? nullptr : &prefix, count, &rb, (int)rb.size(), size);
    ctx.st.executed++;
    if (g.ok && (!gl.ok || gl.out != g.out)) return "C10 a buffer of " + std::to_string(size) + " bytes gives " + (gl.ok ? vis(gl.out, 100) : std::string("failure")) + " but the documented size gives " + vis(g.out, 100);
    if (!g.ok && gl.ok) {
      // only possible when more than 64 random bytes were supplied (C13 promises 192 bytes for up to 64)
      if (rb.size() <= 64) return "C10 " + std::to_string(CRYPT_GENSALT_OUTPUT_SIZE) + " bytes do not suffice for " + std::to_string(rb.size()) + " random bytes but " + std::to_string(size) + " do: " + vis(gl.out, 100);
      Verdict v = gs_valid("C10", m, gl.out, size);
      if (!v.empty()) return v;
      ctx.st.cls(std::string("c10-large-buffer-only/") + METHOD_NAME[m]);
    }
  }
  if (!g.ok) {
    ctx.st.cls(std::string("c10-fail/") + METHOD_NAME[m] + "/" + count_class(m, count));
    return "";
  }
  const Bytes &s = g.out;
  if (m == M_NONE) return "C10 crypt_gensalt succeeded for a prefix that selects no method: \"" + vis(prefix) + "\" -> " + vis(s);
  size_t nb = rb.size();
  const char *nbc = nb <= 3 ? "n<=3" : nb < 16 ? "n4-15" : nb == 16 ? "n16" : nb < 64 ? "n17-63" : nb == 64 ? "n64" : "n65-256";
  Verdict v = gs_valid("C10", m, s, CRYPT_GENSALT_OUTPUT_SIZE);
  if (!v.empty()) return v + " [prefix=\"" + vis(prefix, 80) + "\" count=" + std::to_string(count) + " nrbytes=" + std::to_string(nb) + "]";
  // deterministic and identical across entry points
  GsCall g2 = gs_rn(isnull ? nullptr : &prefix, count, &rb, (int)rb.size(), CRYPT_GENSALT_OUTPUT_SIZE);
  if (!g2.ok || g2.out != s) return "C10 repeated crypt_gensalt_rn call differs: " + vis(s) + " vs " + vis(g2.out);
  {
    char *st = crypt_gensalt(isnull ? nullptr : prefix.c_str(), count, rb.data(), (int)rb.size());
    if (!st || s != st) return "C10 crypt_gensalt differs from crypt_gensalt_rn: " + vis(st ? st : "(null)") + " vs " + vis(s);
    char *ra = crypt_gensalt_ra(isnull ? nullptr : prefix.c_str(), count, rb.data(), (int)rb.size());
    if (!ra || s != ra) {
      std::string got = ra ? ra : "(null)";
      free(ra);
      return "C10 crypt_gensalt_ra differs from crypt_gensalt_rn: " + vis(got) + " vs " + vis(s);
    }
    free(ra);
    ctx.st.executed += 3;
  }
  // accepted by crypt and kept as a literal prefix
  Cost cost = decode_cost(s, P.size());
  cost.units *= 2;
  bool hashed = false;
  bool afford = affordable(cost, ctx.tier);
  if (!afford) {
    // a few hashes per method and process are run although they exceed the per-call budget (up to ten times), so that
    // methods whose cheapest generated setting is already expensive (sunmd5, sha1crypt) are not left to the probe alone
    static std::map<int, int> pricey;
    Cost relaxed = cost;
    relaxed.units /= 10;
    if (affordable(relaxed, ctx.tier) && pricey[(int)m] < (ctx.tier.thorough ? 20 : 4)) {
      pricey[(int)m]++;
      afford = true;
    }
  }
  if (afford) {
    hashed = true;
    HashRes h = hash_rn(P, s);
    ctx.st.executed++;
    if (!h.ok) return "C10 crypt rejects a generated setting: " + vis(s, 200) + " errno=" + std::to_string(h.err) + " [prefix=\"" + vis(prefix, 80) + "\" count=" + std::to_string(count) + " nrbytes=" + std::to_string(nb) + "]";
    if (h.out.compare(0, s.size(), s) != 0) return "C10 hash does not keep the generated setting as a literal prefix: setting=" + vis(s, 200) + " hash=" + vis(h.out, 300);
    // acceptance does not depend on the errno value left behind by whatever the caller did before (the usual
    // sequence is a gensalt call that failed with ERANGE, a retry with a larger buffer, then crypt)
    {
      static struct crypt_data *cd2 = nullptr;
      if (!cd2) cd2 = (struct crypt_data *)calloc(1, sizeof *cd2);
      memset(cd2, 0, sizeof *cd2);
      static const int STALE[] = {ERANGE, EINVAL, ERANGE, ENOMEM, ERANGE, EDOM, ERANGE, EINTR, ERANGE, 12345};
      int stale = STALE[(fnv(s) + count) % (sizeof STALE / sizeof *STALE)];
      errno = stale;
      char *e = crypt_rn(P.c_str(), s.c_str(), cd2, (int)sizeof *cd2);
      ctx.st.executed++;
      if (!e || h.out != e) return "C10 crypt_rn entered with errno == " + std::to_string(stale) + " gives " + vis(e ? e : "(null)", 200) + " for the generated setting " + vis(s, 200) + ", " + vis(h.out, 200) + " with errno == 0";
    }
    // static result handed to crypt without copying
    char *st = crypt_gensalt(isnull ? nullptr : prefix.c_str(), count, rb.data(), (int)rb.size());
    char *hh = st ? crypt(P.c_str(), st) : nullptr;
    ctx.st.executed += 2;
    if (!hh || h.out != hh) return "C10 crypt(P, crypt_gensalt(...)) with the static buffer differs: " + vis(hh ? hh : "(null)", 300) + " vs " + vis(h.out, 300);
  } else {
    ctx.st.skipped_cost++;
    // Too expensive to finish: crypt is started in a child with a short wall-clock limit.  Rejecting the setting takes
    // no time, so a failure inside the limit is a rejection of a generated setting; running into the limit says nothing.
    static std::set<uint64_t> probed;  // one probe per (method, order of magnitude of the cost)
    size_t cap = ctx.tier.thorough ? 400 : 40;
    uint64_t sig = fnv(std::string(METHOD_NAME[m]) + '\0' + std::to_string(cost.rounds ? 64 - __builtin_clzll(cost.rounds) : 0) + '\0' + std::to_string(cost.N) + '\0' + std::to_string(cost.r));
    if (cost.mem <= (64ULL << 20) && probed.size() < cap && probed.insert(sig).second) {
      Bytes out;
      int perr = 0;
      int rc_ = hash_with_limit_ms(P, s, 200, out, &perr);
      ctx.st.executed++;
      ctx.st.cls(std::string("c10-probe/") + METHOD_NAME[m] + (rc_ == -1 ? "/limit" : rc_ == 1 ? "/finished" : "/failed"));
      if (rc_ == 0 && perr != ENOMEM)
        return "C10 crypt rejects a generated setting (within 200 ms, errno=" + std::to_string(perr) + "): " + vis(s, 200) + " [prefix=\"" + vis(prefix, 80) + "\" count=" + std::to_string(count) + " nrbytes=" + std::to_string(nb) + "]";
      if (rc_ == 1 && out.compare(0, s.size(), s) != 0) return "C10 hash does not keep the generated setting as a literal prefix: setting=" + vis(s, 200) + " hash=" + vis(out, 300);
    }
  }
  if (ctx.st.nontriv(fnv(prefix + '\0' + std::to_string(count) + '\0' + std::to_string(nb) + '\0' + rb.substr(0, 16) + (isnull ? "N" : ""))))
    ctx.st.sample("crypt_gensalt_rn(" + (isnull ? std::string("NULL") : "\"" + vis(prefix, 60) + "\"") + ", " + std::to_string(count) + ", rbytes[" + std::to_string(nb) + "]) = \"" + vis(s, 150) + "\"");
  ctx.st.cls(std::string("c10/") + METHOD_NAME[m] + "/" + count_class(m, count) + "/" + nbc + (hashed ? "/hashed" : "/nothashed"));
  return "";
}

// ---------------------------------------------------------------------------
// C11
static Verdict c11_check(const KV &c, Ctx &ctx) {
  Bytes prefix = c.get("prefix");
  if (memchr(prefix.data(), 0, prefix.size())) return "";
  unsigned long count = (unsigned long)c.getu("count");
  Bytes rb = c.get("rbytes");
  rb.resize(64, '\x33');
  Bytes P = c.get("phrase");
  if (memchr(P.data(), 0, P.size()) || P.size() > 511) return "";
  Method m = classify_prefix(prefix);
  if (m == M_NONE) return "";
  GsExpect e = gs_expect(m, count);
  GsCall g = gs_rn(&prefix, count, &rb, 64, CRYPT_GENSALT_OUTPUT_SIZE);
  ctx.st.executed++;
  std::string where = " [prefix=\"" + vis(prefix, 40) + "\" count=" + std::to_string(count) + "]";
  std::string cc = count_class(m, count);
  if (!e.accept) {
    if (g.ok) return "C11 out-of-range count accepted: " + vis(g.out, 200) + where;
    if (g.err != EINVAL) return "C11 out-of-range count rejected with errno " + std::to_string(g.err) + " instead of EINVAL" + where;
    if (ctx.st.nontriv(fnv(prefix + '\0' + std::to_string(count)))) ctx.st.sample("rejected (EINVAL): prefix \"" + vis(prefix, 30) + "\" count " + std::to_string(count));
    ctx.st.cls(std::string("c11/") + METHOD_NAME[m] + "/" + cc);
    return "";
  }
  if (!g.ok) return "C11 documented count rejected, errno " + std::to_string(g.err) + where;
  const Bytes &s = g.out;
  Cost d = decode_cost(s, P.size());
  if (classify_prefix(s) != m && !(m == M_BIG || (m == M_DES && classify_prefix(s) == M_DES))) return "C11 generated setting selects another method: " + vis(s) + where;
  std::string got = " generated=" + vis(s, 120) + where;
  uint64_t applied_lo = e.lo;
  switch (m) {
    case M_MD5: case M_NT: case M_DES: case M_BIG: break;
    case M_BF_A: case M_BF_B: case M_BF_Y:
      if (d.log2cost != e.log2) return "C11 bcrypt cost " + std::to_string(d.log2cost) + " encoded, expected " + std::to_string(e.log2) + got;
      break;
    case M_YESCRYPT: case M_GOST: case M_SCRYPT:
      if (d.N != e.N || d.r != e.r || d.p != 1 || d.t != 0 || d.g != 0 || d.nrom != 0)
        return "C11 (ye)scrypt parameters N=" + std::to_string(d.N) + " r=" + std::to_string(d.r) + " p=" + std::to_string(d.p) + " t=" + std::to_string(d.t) + " expected N=" + std::to_string(e.N) + " r=" + std::to_string(e.r) + " p=1 t=0" + got;
      if (m != M_SCRYPT && d.flags != 0xb6) return "C11 yescrypt flavor is not the documented default (flags " + std::to_string(d.flags) + ")" + got;
      break;
    case M_SHA256: case M_SHA512:
      if (d.has_rounds_field != e.rounds_field) return std::string("C11 sha2crypt rounds field ") + (d.has_rounds_field ? "present" : "absent") + " but expected " + (e.rounds_field ? "present" : "absent") + got;
      if (d.rounds != e.lo) return "C11 sha2crypt rounds " + std::to_string(d.rounds) + " expected " + std::to_string(e.lo) + got;
      break;
    case M_BSDI:
      if (d.rounds != e.lo) return "C11 bsdicrypt count " + std::to_string(d.rounds) + " expected " + std::to_string(e.lo) + got;
      break;
    case M_SHA1:
      if (d.rounds < e.lo || d.rounds > e.hi) return "C11 sha1crypt iterations " + std::to_string(d.rounds) + " outside (" + std::to_string(e.lo - 1) + ", " + std::to_string(e.hi) + "]" + got;
      break;
    case M_SUNMD5: {
      // the number in the setting is added to the basic 4096 rounds
      size_t q = s.find("rounds=");
      unsigned long long extra = q == Bytes::npos ? 0 : strtoull(s.c_str() + q + 7, nullptr, 10);
      if (extra < e.lo || extra > e.hi) return "C11 sunmd5 rounds " + std::to_string(extra) + " outside [" + std::to_string(e.lo) + ", " + std::to_string(e.hi) + "]" + got;
      if (4096ULL + extra > 0xffffffffULL)
        return "C11 sunmd5 setting encodes " + std::to_string(extra) + " additional rounds: 4096 + rounds does not fit the method's 32-bit round counter, crypt applies only " + std::to_string((4096ULL + extra) & 0xffffffffULL) + " rounds (cheaper than the minimum)" + got;
      applied_lo = 4096 + extra;
      break;
    }
    default: break;
  }
  if (ctx.st.nontriv(fnv(prefix + '\0' + std::to_string(count) + '\0' + rb.substr(0, 8)))) ctx.st.sample("count " + std::to_string(count) + " with \"" + vis(prefix, 30) + "\" -> \"" + vis(s, 100) + "\"");
  ctx.st.cls(std::string("c11/") + METHOD_NAME[m] + "/" + cc);
  // applied cost
  Cost cost = decode_cost(s, P.size());
  cost.units *= 3;
  if (affordable(cost, ctx.tier)) {
    HashRes h = hash_rn(P, s);
    ctx.st.executed++;
    if (!h.ok) return "C11 crypt rejects the generated setting" + got;
    // R1 run on the same setting: it parses the decimal/base-64 cost itself and performs that many iterations
    ref::Res r1;
    switch (m) {
      case M_DES: r1 = ref::descrypt(P, s); break;
      case M_BIG: r1 = P.size() > 8 && s.size() > 13 ? ref::bigcrypt(P, s) : ref::descrypt(P, s); break;
      case M_BSDI: r1 = ref::bsdicrypt(P, s); break;
      case M_MD5: r1 = ref::md5crypt(P, s); break;
      case M_SHA256: r1 = ref::shacrypt(P, s, false); break;
      case M_SHA512: r1 = ref::shacrypt(P, s, true); break;
      case M_SHA1: r1 = ref::sha1crypt(P, s); break;
      case M_SUNMD5: r1 = ref::sunmd5(P, s); break;
      case M_NT: r1 = ref::nthash(P, s); break;
      case M_BF_A: if (!ref::bcrypt_2a_safe_for_ref(P)) break; /* fallthrough */
      case M_BF_B: case M_BF_Y: r1 = ref::bcrypt(P, s); break;
      case M_SCRYPT: r1 = ref::scrypt7(P, s); break;
      default: {
        HashRes r2 = hash_r2(P, s);
        if (r2.ok) { r1.ok = true; r1.h = r2.out; }
      }
    }
    if (r1.ok) {
      ctx.st.cls(std::string("c11-applied/") + METHOD_NAME[m]);
      if (r1.h != h.out) return "C11 crypt does not apply the encoded cost: reference run with the decoded cost gives " + vis(r1.h, 200) + " library " + vis(h.out, 200) + got;
    }
  } else if ((m == M_SUNMD5 || m == M_SHA1 || m == M_SHA256 || m == M_SHA512) && applied_lo >= (1ULL << 29)) {
    // far beyond reach: completing at all within the limit means the cost was not applied
    static std::set<std::string> tested;
    bool extreme = rb[0] == '\xff' || rb[0] == '\0' || c.geti("limit_test", 0);
    if (!tested.insert(std::string(METHOD_NAME[m]) + std::to_string(applied_lo >> 16)).second || (!extreme && tested.size() > 12)) {
      ctx.st.skipped_cost++;
      return "";
    }
    Bytes out;
    int rc_ = hash_with_limit(P, s, 1, out);
    ctx.st.cls(std::string("c11-limit/") + METHOD_NAME[m] + (rc_ == -1 ? "/killed" : "/finished"));
    if (rc_ == 1) return "C11 a setting encoding >= 2^29 iterations was hashed within 1 second: crypt does not apply the documented cost: " + vis(out, 200) + got;
  } else
    ctx.st.skipped_cost++;
  return "";
}

#ifndef VF_NO_RC
static const char *const GS_PREFIXES[] = {"$y$", "$gy$", "$7$", "$2b$", "$2y$", "$2a$", "$2x$", "$6$", "$5$", "$sha1", "$md5", "$1$", "$3$", "_", ""};
static unsigned long gen_count(Method m) {
  int k = g::wpick({5, 5, 2, 2, 3, 2});
  switch (k) {
    case 0: return 0;
    case 1: return (unsigned long)g::pick(0, 40);
    case 2: { int b = (int)g::pick(0, 63); long long d = g::pick(-1, 1); return (unsigned long)((1ULL << b) + (unsigned long long)d); }
    case 3: { unsigned long long p = 1; int n = (int)g::pick(0, 19); for (int i = 0; i < n; i++) p *= 10; return (unsigned long)(p + (unsigned long long)g::pick(-1, 1)); }
    case 4: {
      static const unsigned long long B[] = {999, 1000, 1001, 4999, 5000, 5001, 999999998ULL, 999999999ULL, 1000000000ULL, 0xfffffeULL, 0xffffffULL, 0x1000000ULL,
                                             32767, 32768, 32769, 65535, 65536, 262143, 262144, 262145, 0xffffffffULL - 70000, 0xffffffffULL - 65537, 0xffffffffULL - 65536,
                                             0xffffffffULL - 65535, 0xffffffffULL - 4096, 0xffffffffULL - 1, 0xffffffffULL, 0x100000000ULL, 0x100000001ULL, ~0ULL, ~0ULL - 1, 3, 4, 5, 6, 11, 12, 31, 32};
      (void)m;
      return (unsigned long)B[g::pick(0, (long long)(sizeof B / sizeof *B) - 1)];
    }
    default: return (unsigned long)g::u64();
  }
}
static Bytes gen_prefix(bool &isnull) {
  isnull = false;
  int k = g::wpick({10, 1, 1, 2, 2});
  switch (k) {
    case 1: isnull = true; return Bytes();
    case 2: { Bytes t = GS_PREFIXES[g::pick(0, 14)]; return t.substr(0, (size_t)g::pick(0, (long long)t.size())); }  // truncated tag
    case 3: { g::SOpts o; return g::valid_setting(g::any_method(), o).s; }  // a full setting / hash
    case 4: { Bytes t = GS_PREFIXES[g::pick(0, 14)]; return t + g::chars_from(g::PWSAFE, (size_t)g::pick(0, 30)); }
    default: return GS_PREFIXES[g::pick(0, 14)];
  }
}
static size_t gen_nrbytes() {
  int k = g::wpick({2, 2, 3, 4, 3, 3, 2});
  switch (k) {
    case 0: return (size_t)g::pick(0, 3);
    case 1: return (size_t)g::pick(4, 15);
    case 2: return 16;
    case 3: return (size_t)g::pick(17, 63);
    case 4: return 64;
    case 5: return (size_t)g::pick(65, 256);
    default: return (size_t)g::oneof<int>({2, 3, 4, 6, 8, 9, 12, 15, 16, 17, 20, 32, 48, 63, 65, 100, 255, 256});
  }
}
#endif

#include "h_gensalt_c12.inc"
#include "h_gensalt_c13.inc"

#ifndef VF_NO_RC
static int c10_run(Ctx &ctx) {
  return run_rc_generic(ctx, "C10", c10_check, [&]() {
    KV c;
    bool isnull;
    Bytes p = gen_prefix(isnull);
    c.seti("prefix_null", isnull);
    c.set("prefix", p);
    Method m = isnull ? M_YESCRYPT : classify_prefix(p);
    unsigned long cnt = gen_count(m);
    // weight the cheap end so that most successes are hashed
    if (g::coin(1, 2)) cnt = g::coin(2, 3) ? 0 : (unsigned long)g::pick(0, 12);
    c.setu("count", cnt);
    c.set("rbytes", g::rbytes(gen_nrbytes()));
    c.set("phrase", g::phrase(64));
    c.seti("size", g::coin(3, 4) ? CRYPT_GENSALT_OUTPUT_SIZE : g::pick(CRYPT_GENSALT_OUTPUT_SIZE, 4096));
    return c;
  });
}
static int c11_run(Ctx &ctx) {
  return run_rc_generic(ctx, "C11", c11_check, [&]() {
    KV c;
    Bytes p = GS_PREFIXES[g::pick(0, 14)];
    if (g::coin(1, 8)) { g::SOpts o; p = g::valid_setting(g::any_method(), o).s; }
    c.set("prefix", p);
    c.setu("count", gen_count(classify_prefix(p)));
    c.set("rbytes", g::rbytes(64));
    c.set("phrase", g::phrase(40));
    return c;
  });
}
#else
#define c10_run nullptr
#define c11_run nullptr
#define c12_run nullptr
#define c13_run nullptr
#endif

static Prop PROPS[] = {
  {"C10", c10_check, c10_run, nullptr},
  {"C11", c11_check, c11_run, c11_grid},
  {"C12", c12_check_any, c12_run, c12_grid},
  {"C13", c13_check, c13_run, c13_grid},
};

int main(int argc, char **argv) { return vf_main(argc, argv, PROPS, sizeof PROPS / sizeof *PROPS); }
