// Interposition shims (DESIGN.md section 1.5).  The library variant
// libcrypt-ip.a has its references to malloc/realloc/free/mmap/munmap/
// arc4random_buf renamed to vf_*; the harness defines them here: a ledger of
// live blocks/mappings, a fault schedule, a mapping-size cap and an entropy
// stub, all forwarding to the real functions.
#pragma once
#include <sys/mman.h>

#include <cerrno>
#include <cstdint>
#include <cstdlib>
#include <cstring>
#include <map>
#include <string>
#include <vector>

namespace vf {
namespace shim {

struct Block {
  size_t size;
  bool mapping;
};
struct Event {
  char kind;  // 'm' malloc, 'r' realloc, 'f' free, 'M' mmap, 'U' munmap, 'e' entropy
  size_t size;
  bool failed;
  int flags;
};
struct State {
  bool active = false;            // record + apply schedule only while a library call is in flight
  std::map<void *, Block> live;   // blocks / mappings obtained through the shims and not yet released
  std::vector<Event> events;      // requests of the current call
  long fail_at = -1, fail_at2 = -1;  // index (into the request sequence of the call) to fail; -1 none
  long req = 0;                   // request counter of the current call
  size_t map_cap = 0;             // refuse anonymous mappings larger than this with ENOMEM (0 = no cap)
  uint64_t cap_hits = 0;
  // entropy stub
  bool entropy_stub = false;
  std::string entropy_stream;
  size_t entropy_pos = 0;
  std::vector<size_t> entropy_reqs;
  // observation hooks
  void (*on_release)(void *p, size_t n, char kind) = nullptr;      // called before free / munmap / realloc of an existing block
  void (*on_realloc_entry)(void *p, size_t oldsize, size_t newsize) = nullptr;
  uint64_t double_free = 0, foreign_free = 0;
  std::vector<void *> failed_unmaps;  // mappings whose own munmap was the injected failure (the only ones that may stay mapped)
  void begin(long f1 = -1, long f2 = -1) {
    events.clear();
    failed_unmaps.clear();
    req = 0;
    fail_at = f1;
    fail_at2 = f2;
    active = true;
  }
  void end() {
    active = false;
    fail_at = fail_at2 = -1;
  }
  bool should_fail() {
    long k = req++;
    return active && (k == fail_at || k == fail_at2);
  }
};
inline State &S() {
  static State s;
  return s;
}

}  // namespace shim
}  // namespace vf

extern "C" {
void *vf_malloc(size_t n) {
  auto &s = vf::shim::S();
  if (s.should_fail()) {
    s.events.push_back({'m', n, true, 0});
    errno = ENOMEM;
    return nullptr;
  }
  void *p = malloc(n);
  if (s.active) s.events.push_back({'m', n, p == nullptr, 0});
  if (p) {
    memset(p, 0xC9, n);  // fresh heap memory is not zero: nothing may rely on it
    s.live[p] = {n, false};
  }
  return p;
}
// calloc is not used by the pinned tree; a tree that starts to use it gets the same ledger and fault schedule
void *vf_calloc(size_t a, size_t b) {
  auto &s = vf::shim::S();
  size_t n = a * b;
  if (s.should_fail() || (b && n / b != a)) {
    s.events.push_back({'m', n, true, 0});
    errno = ENOMEM;
    return nullptr;
  }
  void *p = calloc(a, b);
  if (s.active) s.events.push_back({'m', n, p == nullptr, 0});
  if (p) s.live[p] = {n, false};
  return p;
}
void *vf_realloc(void *old, size_t n) {
  auto &s = vf::shim::S();
  size_t oldsize = 0;
  auto it = old ? s.live.find(old) : s.live.end();
  if (it != s.live.end()) oldsize = it->second.size;
  if (old && s.on_realloc_entry) s.on_realloc_entry(old, oldsize, n);
  if (s.should_fail()) {
    s.events.push_back({'r', n, true, 0});
    errno = ENOMEM;
    return nullptr;
  }
  if (old && s.on_release) s.on_release(old, oldsize, 'r');
  void *p = realloc(old, n);
  if (s.active) s.events.push_back({'r', n, p == nullptr, 0});
  if (p && n > oldsize && (old == nullptr || it != s.live.end())) memset((char *)p + oldsize, 0xC9, n - oldsize);  // the added part is not zero either
  if (p) {
    if (it != s.live.end()) s.live.erase(it);
    s.live[p] = {n, false};
  }
  return p;
}
void vf_free(void *p) {
  auto &s = vf::shim::S();
  if (!p) return;
  auto it = s.live.find(p);
  if (it == s.live.end()) {
    s.foreign_free++;
  } else {
    if (s.on_release) s.on_release(p, it->second.size, 'f');
    s.live.erase(it);
  }
  if (s.active) s.events.push_back({'f', 0, false, 0});
  free(p);
}
void *vf_mmap(void *addr, size_t len, int prot, int flags, int fd, off_t off) {
  auto &s = vf::shim::S();
  if (s.should_fail()) {
    s.events.push_back({'M', len, true, flags});
    errno = ENOMEM;
    return MAP_FAILED;
  }
  if (s.map_cap && len > s.map_cap) {
    s.cap_hits++;
    if (s.active) s.events.push_back({'M', len, true, flags});
    errno = ENOMEM;
    return MAP_FAILED;
  }
  void *p = mmap(addr, len, prot, flags, fd, off);
  if (s.active) s.events.push_back({'M', len, p == MAP_FAILED, flags});
  if (p != MAP_FAILED) s.live[p] = {len, true};
  return p;
}
int vf_munmap(void *p, size_t len) {
  auto &s = vf::shim::S();
  if (s.should_fail()) {
    s.events.push_back({'U', len, true, 0});
    s.failed_unmaps.push_back(p);
    errno = EINVAL;
    return -1;
  }
  auto it = s.live.find(p);
  if (it != s.live.end()) {
    if (s.on_release) s.on_release(p, it->second.size, 'U');
    // unmapping fewer pages than were mapped leaves the tail mapped: it stays in the ledger (a leak unless it is
    // unmapped later)
    size_t whole = (it->second.size + 4095) & ~(size_t)4095, part = (len + 4095) & ~(size_t)4095;
    s.live.erase(it);
    if (part < whole) s.live[(char *)p + part] = {whole - part, true};
  }
  if (s.active) s.events.push_back({'U', len, false, 0});
  return munmap(p, len);
}
void vf_arc4random_buf(void *buf, size_t n) {
  auto &s = vf::shim::S();
  s.entropy_reqs.push_back(n);
  if (s.entropy_stub) {
    unsigned char *o = (unsigned char *)buf;
    for (size_t i = 0; i < n; i++) o[i] = s.entropy_pos < s.entropy_stream.size() ? (unsigned char)s.entropy_stream[s.entropy_pos++] : (unsigned char)(0xA0 + i);
    return;
  }
  arc4random_buf(buf, n);
}
}
