// Shared harness core: case files, counters/evidence, driver main().
// See DESIGN.md section 1.2 / 1.6.
#pragma once
#include <cerrno>
#include <cinttypes>
#include <cstdint>
#include <cstdio>
#include <cstdlib>
#include <cstring>
#include <fcntl.h>
#include <functional>
#include <map>
#include <regex>
#include <set>
#include <string>
#include <unistd.h>
#include <unordered_set>
#include <utility>
#include <vector>

namespace vf {

typedef std::string Bytes;

inline std::string hex(const Bytes &b) {
  static const char *d = "0123456789abcdef";
  std::string o;
  o.reserve(b.size() * 2);
  for (unsigned char c : b) {
    o.push_back(d[c >> 4]);
    o.push_back(d[c & 15]);
  }
  return o;
}
inline Bytes unhex(const std::string &h) {
  Bytes o;
  auto v = [](char c) -> int {
    if (c >= '0' && c <= '9') return c - '0';
    if (c >= 'a' && c <= 'f') return c - 'a' + 10;
    if (c >= 'A' && c <= 'F') return c - 'A' + 10;
    return 0;
  };
  for (size_t i = 0; i + 1 < h.size(); i += 2) o.push_back((char)(v(h[i]) * 16 + v(h[i + 1])));
  return o;
}
// printable rendering for samples / messages
inline std::string vis(const Bytes &b, size_t max = 120) {
  std::string o;
  for (size_t i = 0; i < b.size() && i < max; i++) {
    unsigned char c = b[i];
    if (c >= 0x20 && c < 0x7f && c != '\\' && c != '"') o.push_back((char)c);
    else {
      char t[8];
      snprintf(t, sizeof t, "\\x%02x", c);
      o += t;
    }
  }
  if (b.size() > max) o += "...(" + std::to_string(b.size()) + ")";
  return o;
}
inline uint64_t fnv(const void *p, size_t n, uint64_t h = 1469598103934665603ULL) {
  const unsigned char *s = (const unsigned char *)p;
  for (size_t i = 0; i < n; i++) {
    h ^= s[i];
    h *= 1099511628211ULL;
  }
  return h;
}
inline uint64_t fnv(const std::string &s, uint64_t h = 1469598103934665603ULL) { return fnv(s.data(), s.size(), h); }

// A case: ordered key -> bytes.  Integers are stored as decimal text.
struct KV {
  std::vector<std::pair<std::string, Bytes>> f;
  void set(const std::string &k, const Bytes &v) {
    for (auto &p : f)
      if (p.first == k) {
        p.second = v;
        return;
      }
    f.emplace_back(k, v);
  }
  void seti(const std::string &k, long long v) { set(k, std::to_string(v)); }
  void setu(const std::string &k, unsigned long long v) { set(k, std::to_string(v)); }
  bool has(const std::string &k) const {
    for (auto &p : f)
      if (p.first == k) return true;
    return false;
  }
  const Bytes &get(const std::string &k) const {
    static const Bytes empty;
    for (auto &p : f)
      if (p.first == k) return p.second;
    return empty;
  }
  long long geti(const std::string &k, long long def = 0) const {
    if (!has(k)) return def;
    return strtoll(get(k).c_str(), nullptr, 10);
  }
  unsigned long long getu(const std::string &k, unsigned long long def = 0) const {
    if (!has(k)) return def;
    return strtoull(get(k).c_str(), nullptr, 10);
  }
  std::string serialize() const {
    std::string o;
    for (auto &p : f) {
      o += p.first;
      o += '=';
      o += hex(p.second);
      o += '\n';
    }
    return o;
  }
  std::string pretty() const {
    std::string o = "{";
    bool first = true;
    for (auto &p : f) {
      if (!first) o += ", ";
      first = false;
      o += p.first + "=\"" + vis(p.second, 96) + "\"";
    }
    return o + "}";
  }
  static KV parse(const std::string &text) {
    KV k;
    size_t pos = 0;
    while (pos < text.size()) {
      size_t e = text.find('\n', pos);
      if (e == std::string::npos) e = text.size();
      std::string line = text.substr(pos, e - pos);
      pos = e + 1;
      if (line.empty() || line[0] == '#') continue;
      size_t eq = line.find('=');
      if (eq == std::string::npos) continue;
      k.f.emplace_back(line.substr(0, eq), unhex(line.substr(eq + 1)));
    }
    return k;
  }
  uint64_t hash() const { return fnv(serialize()); }
};

inline bool read_file(const std::string &p, std::string &out) {
  FILE *f = fopen(p.c_str(), "rb");
  if (!f) return false;
  char buf[65536];
  size_t n;
  out.clear();
  while ((n = fread(buf, 1, sizeof buf, f)) > 0) out.append(buf, n);
  fclose(f);
  return true;
}
inline void write_file(const std::string &p, const std::string &data) {
  int fd = open(p.c_str(), O_WRONLY | O_CREAT | O_TRUNC, 0644);
  if (fd < 0) return;
  size_t off = 0;
  while (off < data.size()) {
    ssize_t w = write(fd, data.data() + off, data.size() - off);
    if (w <= 0) break;
    off += (size_t)w;
  }
  close(fd);
}

inline std::string jstr(const std::string &s) {
  std::string o = "\"";
  for (unsigned char c : s) {
    if (c == '"' || c == '\\') {
      o.push_back('\\');
      o.push_back((char)c);
    } else if (c < 0x20 || c >= 0x7f) {
      char t[8];
      snprintf(t, sizeof t, "\\u%04x", c);
      o += t;
    } else
      o.push_back((char)c);
  }
  return o + "\"";
}

struct Stats {
  std::string outdir;
  uint64_t evaluations = 0;     // cases generated / cells enumerated
  uint64_t executed = 0;        // library calls made
  uint64_t nontrivial = 0;      // non-trivial by the property's rule (not deduplicated)
  uint64_t distinct_by_construction = 0;  // non-trivial cells of an enumerated grid (each enumerated once)
  uint64_t skipped_cost = 0;
  uint64_t excluded_known = 0;
  std::map<std::string, uint64_t> classes;
  std::vector<std::string> samples;
  std::unordered_set<uint64_t> seen;
  size_t seen_cap = 6000000;
  size_t sample_cap = 12;
  uint64_t since_flush = 0;

  void cls(const std::string &c, uint64_t n = 1) { classes[c] += n; }
  // record a non-trivial case; returns true if new
  bool nontriv(uint64_t h) {
    nontrivial++;
    if (seen.size() < seen_cap) return seen.insert(h).second;
    return false;
  }
  void sample(const std::string &s) {
    if (samples.size() < sample_cap) samples.push_back(s);
    else {
      // keep a spread: replace pseudo-deterministically by count
      uint64_t n = evaluations + executed;
      if (n % 997 == 0) samples[(n / 997) % sample_cap] = s;
    }
  }
  void flush(bool with_seen = true) {
    if (outdir.empty()) return;
    std::string o = "{\n";
    o += " \"evaluations\": " + std::to_string(evaluations) + ",\n";
    o += " \"executed\": " + std::to_string(executed) + ",\n";
    o += " \"nontrivial\": " + std::to_string(nontrivial) + ",\n";
    o += " \"distinct_by_construction\": " + std::to_string(distinct_by_construction) + ",\n";
    o += " \"skipped_cost\": " + std::to_string(skipped_cost) + ",\n";
    o += " \"excluded_known\": " + std::to_string(excluded_known) + ",\n";
    o += " \"seen\": " + std::to_string(seen.size()) + ",\n";
    o += " \"classes\": {";
    bool first = true;
    for (auto &p : classes) {
      if (!first) o += ",";
      first = false;
      o += "\n  " + jstr(p.first) + ": " + std::to_string(p.second);
    }
    o += "\n },\n \"samples\": [";
    first = true;
    for (auto &s : samples) {
      if (!first) o += ",";
      first = false;
      o += "\n  " + jstr(s);
    }
    o += "\n ]\n}\n";
    write_file(outdir + "/counters.json.tmp", o);
    rename((outdir + "/counters.json.tmp").c_str(), (outdir + "/counters.json").c_str());
    if (with_seen) {
      std::string sb;
      sb.reserve(seen.size() * 8);
      for (uint64_t h : seen) sb.append((const char *)&h, 8);
      write_file(outdir + "/seen.bin", sb);
    }
    since_flush = 0;
  }
  void tick() {
    if (++since_flush >= 4096) flush_light();
  }
  void flush_light() {
    // counters only (cheap); seen.bin is written by flush()
    since_flush = 0;
  }
};

struct Tier {
  bool thorough = false;
  long budget_ms = 60;  // per-call cost budget for the governor
};

// Result of checking one case: empty = property held.
typedef std::string Verdict;

// Known findings (KNOWN_FINDINGS.txt, read-only): a genuine defect that was recorded instead of repaired is
// excluded by construction - the failing case is counted, reported once as KNOWN-FINDING by the runner, and the
// search continues behind it.  A failure that does not match a listed finding is reported as usual.
struct KnownFinding {
  std::string prop, text;
  std::regex rx;
};
inline std::vector<KnownFinding> load_known_findings() {
  std::vector<KnownFinding> v;
  const char *p = getenv("VF_KNOWN");
  std::string text;
  if (!p || !read_file(p, text)) return v;
  size_t pos = 0;
  while (pos < text.size()) {
    size_t e = text.find('\n', pos);
    if (e == std::string::npos) e = text.size();
    std::string line = text.substr(pos, e - pos);
    pos = e + 1;
    if (line.compare(0, 6, "known:") != 0) continue;
    size_t a = line.find("property="), m = line.find("match=/");
    if (a == std::string::npos || m == std::string::npos) continue;
    size_t me = line.find("/ ", m + 7);
    if (me == std::string::npos) continue;
    KnownFinding k;
    k.prop = line.substr(a + 9, line.find(' ', a) - (a + 9));
    k.text = line.substr(me + 2);
    try {
      k.rx = std::regex(line.substr(m + 7, me - (m + 7)));
    } catch (...) {
      continue;
    }
    v.push_back(k);
  }
  return v;
}

struct Ctx {
  Stats st;
  Tier tier;
  std::vector<KnownFinding> known;
  bool known_loaded = false;
  std::set<std::string> known_hits;
  // returns "" when the verdict is a listed known finding of property `prop` (and records the hit)
  Verdict filter_known(const char *prop, const Verdict &v) {
    if (v.empty()) return v;
    if (!known_loaded) {
      known = load_known_findings();
      known_loaded = true;
    }
    for (auto &k : known)
      if (k.prop == prop && std::regex_search(v, k.rx)) {
        st.excluded_known++;
        if (known_hits.insert(k.text).second && !outdir.empty()) {
          std::string all;
          for (auto &t : known_hits) all += t + "\n";
          write_file(outdir + "/known-hits.txt", all);
        }
        return "";
      }
    return v;
  }
  int shard = 0, nshards = 1;
  uint64_t seed = 1;
  std::string outdir;
  void current(const KV &c) {
    if (!outdir.empty()) write_file(outdir + "/current.case", c.serialize());
  }
  void fail(const KV &c, const std::string &msg) {
    if (!outdir.empty()) write_file(outdir + "/fail.case", "# " + msg + "\n" + c.serialize());
  }
};

struct Prop {
  const char *id;
  // evaluate one case
  Verdict (*check)(const KV &c, Ctx &ctx);
  // run a generated campaign (rapidcheck); returns number of failures (0/1)
  int (*run_rc)(Ctx &ctx);
  // enumerate this shard's part of a finite grid; returns number of failures
  int (*run_grid)(Ctx &ctx);
};

}  // namespace vf
