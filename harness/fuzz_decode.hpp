// Structure-aware decoding of a libFuzzer input into an API call (KV form).
#pragma once
#include "core.hpp"

namespace vf {

struct FuzzRd {
  const unsigned char *p;
  size_t n, i = 0;
  FuzzRd(const unsigned char *p_, size_t n_) : p(p_), n(n_) {}
  unsigned u8() { return i < n ? p[i++] : 0; }
  unsigned u16() { unsigned a = u8(); return a | (u8() << 8); }
  unsigned long long u64() { unsigned long long v = 0; for (int k = 0; k < 8; k++) v |= (unsigned long long)u8() << (8 * k); return v; }
  Bytes take(size_t k) {
    if (k > n - i) k = n - i;
    Bytes b((const char *)p + i, k);
    i += k;
    return b;
  }
};

static const char *const FUZZ_TEMPLATES[] = {
  "$y$j75$", "$gy$j75$", "$7$40..../....", "$2b$04$", "$2a$04$", "$2x$04$", "$2y$04$", "$6$rounds=1000$", "$5$rounds=1000$", "$6$", "$5$",
  "$sha1$20$", "$sha1$", "$md5$", "$md5,rounds=5$", "$md5,", "$1$", "$3$", "_/...", "", "$y$", "$7$", "$2b$", "$sha1", "$md5", "_"};
static const size_t FUZZ_NTEMPL = sizeof FUZZ_TEMPLATES / sizeof *FUZZ_TEMPLATES;

inline KV fuzz_decode(const Bytes &raw) {
  FuzzRd r((const unsigned char *)raw.data(), raw.size());
  KV c;
  unsigned entry = r.u8() % 8;
  c.seti("entry", entry);
  unsigned f = r.u8();
  c.seti("align", f & 15);
  c.seti("fill", (f >> 4) & 3);
  if ((f >> 6) & 1) c.seti("own_fields", 1);
  if (f >> 7) c.seti("rbytes_null", 1);
  unsigned g = r.u8();
  c.seti("prior", g % 3);
  if ((g >> 2) == 0x3e) c.seti("phrase_null", 1);
  if ((g >> 2) == 0x3d) c.seti("setting_null", 1);
  static const long long SIZES[] = {32768, 32768, 32768, 32768, -1, 0, 1, 2, 3, 4, 13, 100, 383, 384, 32767, -2147483647LL - 1};
  unsigned ss = r.u8();
  c.seti("size", ss < 240 ? SIZES[ss % 16] : (long long)r.u16() - 100);
  c.seti("ra_state", ss & 3);
  unsigned cs = r.u8();
  c.setu("count", cs < 128 ? 0 : cs < 224 ? (cs - 128) % 48 : r.u64());
  int nr = (int)(short)r.u16();
  if (nr > 600) nr %= 600;
  c.seti("nrbytes", nr);
  int os = (int)(short)r.u16();
  c.seti("output_size", (os & 3) == 0 ? 192 : os % 400);
  unsigned sel = r.u8();
  Bytes setting;
  if (sel < 160) {
    setting = FUZZ_TEMPLATES[sel % FUZZ_NTEMPL];
    setting += r.take(r.u8());
  } else {
    setting = r.take(r.u16() % 5000);
  }
  c.set("setting", setting);
  size_t pl = r.u16() % 1200;
  Bytes ph = r.take(pl);
  while (ph.size() < pl) ph.push_back((char)('A' + ph.size() % 26));
  c.set("phrase", ph);
  c.set("rbytes", r.take(nr > 0 ? (size_t)nr : 0));
  c.set("p0", "previous user");
  c.set("s0", "$1$prevsalt$");
  c.set("src", sel < 160 ? "fuzz-template" : "fuzz-raw");
  return c;
}

}  // namespace vf
