// R1: reference implementations written for this harness from the public
// specifications (FIPS 46-3, PHK md5crypt, Drepper SHA-crypt, NetBSD sha1crypt,
// Solaris SunMD5, Provos/Mazieres bcrypt, Percival scrypt + "$7$" encoding,
// R 50.1.113-2016), on top of OpenSSL / libgcrypt primitives only.  No code
// shared with the tree under test.
#pragma once
#include <gcrypt.h>
#include <openssl/evp.h>
#include <openssl/hmac.h>
#include <openssl/kdf.h>
#include <openssl/provider.h>

#include "../methods.hpp"
#include "hamlet.inc"
#include "pi_blowfish.inc"

namespace vf {
namespace ref {

inline void init() {
  static bool done = false;
  if (done) return;
  done = true;
  OSSL_PROVIDER_load(nullptr, "legacy");
  OSSL_PROVIDER_load(nullptr, "default");
  gcry_check_version(nullptr);
  gcry_control(GCRYCTL_DISABLE_SECMEM, 0);
  gcry_control(GCRYCTL_INITIALIZATION_FINISHED, 0);
}

// ---- digests via OpenSSL EVP ----------------------------------------------------
struct Md {
  EVP_MD_CTX *c;
  const EVP_MD *md;
  explicit Md(const char *name) {
    init();
    md = EVP_MD_fetch(nullptr, name, nullptr);
    c = EVP_MD_CTX_new();
    if (md) EVP_DigestInit_ex(c, md, nullptr);
  }
  ~Md() {
    EVP_MD_CTX_free(c);
    EVP_MD_free((EVP_MD *)md);
  }
  bool ok() const { return md != nullptr; }
  void reset() { EVP_DigestInit_ex(c, md, nullptr); }
  void up(const void *p, size_t n) { EVP_DigestUpdate(c, p, n); }
  void up(const Bytes &b) { up(b.data(), b.size()); }
  Bytes fin() {
    unsigned char out[EVP_MAX_MD_SIZE];
    unsigned int n = 0;
    EVP_DigestFinal_ex(c, out, &n);
    return Bytes((char *)out, n);
  }
};
inline Bytes digest(const char *name, const Bytes &m) {
  Md d(name);
  if (!d.ok()) return Bytes();
  d.up(m);
  return d.fin();
}
inline Bytes hmac(const char *name, const Bytes &key, const Bytes &msg) {
  init();
  const EVP_MD *md = EVP_get_digestbyname(name);
  unsigned char out[EVP_MAX_MD_SIZE];
  unsigned int n = 0;
  HMAC(md, key.data(), (int)key.size(), (const unsigned char *)msg.data(), msg.size(), out, &n);
  return Bytes((char *)out, n);
}
inline Bytes gcry_digest(int algo, const Bytes &m) {
  init();
  Bytes out(gcry_md_get_algo_dlen(algo), '\0');
  gcry_md_hash_buffer(algo, &out[0], m.data(), m.size());
  return out;
}
inline Bytes gcry_hmac(int algo, const Bytes &key, const Bytes &msg) {
  init();
  gcry_md_hd_t h;
  if (gcry_md_open(&h, algo, GCRY_MD_FLAG_HMAC)) return Bytes();
  gcry_md_setkey(h, key.data(), key.size());
  gcry_md_write(h, msg.data(), msg.size());
  Bytes out((char *)gcry_md_read(h, algo), gcry_md_get_algo_dlen(algo));
  gcry_md_close(h);
  return out;
}

// crypt-style base-64: n characters, least significant 6 bits first
inline void to64(Bytes &o, uint32_t v, int n) {
  while (n-- > 0) {
    o.push_back(A64[v & 63]);
    v >>= 6;
  }
}

// ---- DES, bit level, from the FIPS 46-3 tables -------------------------------------
namespace des {
static const unsigned char IP[64] = {58, 50, 42, 34, 26, 18, 10, 2, 60, 52, 44, 36, 28, 20, 12, 4, 62, 54, 46, 38, 30, 22, 14, 6, 64, 56, 48, 40, 32, 24, 16, 8,
                                     57, 49, 41, 33, 25, 17, 9, 1, 59, 51, 43, 35, 27, 19, 11, 3, 61, 53, 45, 37, 29, 21, 13, 5, 63, 55, 47, 39, 31, 23, 15, 7};
static const unsigned char FP[64] = {40, 8, 48, 16, 56, 24, 64, 32, 39, 7, 47, 15, 55, 23, 63, 31, 38, 6, 46, 14, 54, 22, 62, 30, 37, 5, 45, 13, 53, 21, 61, 29,
                                     36, 4, 44, 12, 52, 20, 60, 28, 35, 3, 43, 11, 51, 19, 59, 27, 34, 2, 42, 10, 50, 18, 58, 26, 33, 1, 41, 9, 49, 17, 57, 25};
static const unsigned char E[48] = {32, 1, 2, 3, 4, 5, 4, 5, 6, 7, 8, 9, 8, 9, 10, 11, 12, 13, 12, 13, 14, 15, 16, 17,
                                    16, 17, 18, 19, 20, 21, 20, 21, 22, 23, 24, 25, 24, 25, 26, 27, 28, 29, 28, 29, 30, 31, 32, 1};
static const unsigned char P[32] = {16, 7, 20, 21, 29, 12, 28, 17, 1, 15, 23, 26, 5, 18, 31, 10, 2, 8, 24, 14, 32, 27, 3, 9, 19, 13, 30, 6, 22, 11, 4, 25};
static const unsigned char PC1[56] = {57, 49, 41, 33, 25, 17, 9, 1, 58, 50, 42, 34, 26, 18, 10, 2, 59, 51, 43, 35, 27, 19, 11, 3, 60, 52, 44, 36,
                                      63, 55, 47, 39, 31, 23, 15, 7, 62, 54, 46, 38, 30, 22, 14, 6, 61, 53, 45, 37, 29, 21, 13, 5, 28, 20, 12, 4};
static const unsigned char PC2[48] = {14, 17, 11, 24, 1, 5, 3, 28, 15, 6, 21, 10, 23, 19, 12, 4, 26, 8, 16, 7, 27, 20, 13, 2,
                                      41, 52, 31, 37, 47, 55, 30, 40, 51, 45, 33, 48, 44, 49, 39, 56, 34, 53, 46, 42, 50, 36, 29, 32};
static const unsigned char SHIFTS[16] = {1, 1, 2, 2, 2, 2, 2, 2, 1, 2, 2, 2, 2, 2, 2, 1};
static const unsigned char SBOX[8][64] = {
  {14, 4, 13, 1, 2, 15, 11, 8, 3, 10, 6, 12, 5, 9, 0, 7, 0, 15, 7, 4, 14, 2, 13, 1, 10, 6, 12, 11, 9, 5, 3, 8,
   4, 1, 14, 8, 13, 6, 2, 11, 15, 12, 9, 7, 3, 10, 5, 0, 15, 12, 8, 2, 4, 9, 1, 7, 5, 11, 3, 14, 10, 0, 6, 13},
  {15, 1, 8, 14, 6, 11, 3, 4, 9, 7, 2, 13, 12, 0, 5, 10, 3, 13, 4, 7, 15, 2, 8, 14, 12, 0, 1, 10, 6, 9, 11, 5,
   0, 14, 7, 11, 10, 4, 13, 1, 5, 8, 12, 6, 9, 3, 2, 15, 13, 8, 10, 1, 3, 15, 4, 2, 11, 6, 7, 12, 0, 5, 14, 9},
  {10, 0, 9, 14, 6, 3, 15, 5, 1, 13, 12, 7, 11, 4, 2, 8, 13, 7, 0, 9, 3, 4, 6, 10, 2, 8, 5, 14, 12, 11, 15, 1,
   13, 6, 4, 9, 8, 15, 3, 0, 11, 1, 2, 12, 5, 10, 14, 7, 1, 10, 13, 0, 6, 9, 8, 7, 4, 15, 14, 3, 11, 5, 2, 12},
  {7, 13, 14, 3, 0, 6, 9, 10, 1, 2, 8, 5, 11, 12, 4, 15, 13, 8, 11, 5, 6, 15, 0, 3, 4, 7, 2, 12, 1, 10, 14, 9,
   10, 6, 9, 0, 12, 11, 7, 13, 15, 1, 3, 14, 5, 2, 8, 4, 3, 15, 0, 6, 10, 1, 13, 8, 9, 4, 5, 11, 12, 7, 2, 14},
  {2, 12, 4, 1, 7, 10, 11, 6, 8, 5, 3, 15, 13, 0, 14, 9, 14, 11, 2, 12, 4, 7, 13, 1, 5, 0, 15, 10, 3, 9, 8, 6,
   4, 2, 1, 11, 10, 13, 7, 8, 15, 9, 12, 5, 6, 3, 0, 14, 11, 8, 12, 7, 1, 14, 2, 13, 6, 15, 0, 9, 10, 4, 5, 3},
  {12, 1, 10, 15, 9, 2, 6, 8, 0, 13, 3, 4, 14, 7, 5, 11, 10, 15, 4, 2, 7, 12, 9, 5, 6, 1, 13, 14, 0, 11, 3, 8,
   9, 14, 15, 5, 2, 8, 12, 3, 7, 0, 4, 10, 1, 13, 11, 6, 4, 3, 2, 12, 9, 5, 15, 10, 11, 14, 1, 7, 6, 0, 8, 13},
  {4, 11, 2, 14, 15, 0, 8, 13, 3, 12, 9, 7, 5, 10, 6, 1, 13, 0, 11, 7, 4, 9, 1, 10, 14, 3, 5, 12, 2, 15, 8, 6,
   1, 4, 11, 13, 12, 3, 7, 14, 10, 15, 6, 8, 0, 5, 9, 2, 6, 11, 13, 8, 1, 4, 10, 7, 9, 5, 0, 15, 14, 2, 3, 12},
  {13, 2, 8, 4, 6, 15, 11, 1, 10, 9, 3, 14, 5, 0, 12, 7, 1, 15, 13, 8, 10, 3, 7, 4, 12, 5, 6, 11, 0, 14, 9, 2,
   7, 11, 4, 1, 9, 12, 14, 2, 0, 6, 10, 13, 15, 3, 5, 8, 2, 1, 14, 7, 4, 10, 8, 13, 15, 12, 9, 0, 3, 5, 6, 11}};

typedef unsigned char Bit;
struct Sched {
  Bit k[16][48];
};
inline void bytes_to_bits(const unsigned char *in, Bit *out, int nbytes) {
  for (int i = 0; i < nbytes; i++)
    for (int b = 0; b < 8; b++) out[i * 8 + b] = (in[i] >> (7 - b)) & 1;
}
inline void bits_to_bytes(const Bit *in, unsigned char *out, int nbytes) {
  for (int i = 0; i < nbytes; i++) {
    unsigned char v = 0;
    for (int b = 0; b < 8; b++) v = (unsigned char)((v << 1) | in[i * 8 + b]);
    out[i] = v;
  }
}
inline void key_schedule(const Bit key[64], Sched &s) {
  Bit cd[56];
  for (int i = 0; i < 56; i++) cd[i] = key[PC1[i] - 1];
  for (int r = 0; r < 16; r++) {
    for (int sh = 0; sh < SHIFTS[r]; sh++) {
      Bit c0 = cd[0], d0 = cd[28];
      for (int i = 0; i < 27; i++) {
        cd[i] = cd[i + 1];
        cd[28 + i] = cd[28 + i + 1];
      }
      cd[27] = c0;
      cd[55] = d0;
    }
    for (int i = 0; i < 48; i++) s.k[r][i] = cd[PC2[i] - 1];
  }
}
// One full DES operation on 64 bits with the crypt(3) salt perturbation of the
// E-box output: salt bit i set => outputs i and i+24 of E are exchanged.
inline void block(const Sched &s, uint32_t salt, const Bit in[64], Bit out[64], bool decrypt) {
  Bit lr[64];
  for (int i = 0; i < 64; i++) lr[i] = in[IP[i] - 1];
  Bit *L = lr, *R = lr + 32;
  for (int r = 0; r < 16; r++) {
    const Bit *k = s.k[decrypt ? 15 - r : r];
    Bit e[48];
    for (int i = 0; i < 48; i++) e[i] = R[E[i] - 1];
    for (int i = 0; i < 24; i++)
      if ((salt >> i) & 1) {
        Bit t = e[i];
        e[i] = e[i + 24];
        e[i + 24] = t;
      }
    for (int i = 0; i < 48; i++) e[i] ^= k[i];
    Bit sb[32];
    for (int b = 0; b < 8; b++) {
      const Bit *x = e + 6 * b;
      int row = (x[0] << 1) | x[5];
      int col = (x[1] << 3) | (x[2] << 2) | (x[3] << 1) | x[4];
      int v = SBOX[b][row * 16 + col];
      for (int j = 0; j < 4; j++) sb[4 * b + j] = (v >> (3 - j)) & 1;
    }
    Bit nr[32];
    for (int i = 0; i < 32; i++) nr[i] = L[i] ^ sb[P[i] - 1];
    for (int i = 0; i < 32; i++) {
      L[i] = R[i];
      R[i] = nr[i];
    }
  }
  Bit pre[64];
  for (int i = 0; i < 32; i++) {
    pre[i] = R[i];
    pre[32 + i] = L[i];
  }
  for (int i = 0; i < 64; i++) out[i] = pre[FP[i] - 1];
}
// bytes interface: key 8 bytes, data 8 bytes; applied `count` times
inline void crypt_bytes(const unsigned char key[8], uint32_t salt, uint32_t count, const unsigned char in[8], unsigned char out[8], bool decrypt = false) {
  Bit kb[64], d[64], o[64];
  bytes_to_bits(key, kb, 8);
  Sched s;
  key_schedule(kb, s);
  bytes_to_bits(in, d, 8);
  if (count == 0) count = 1;
  for (uint32_t i = 0; i < count; i++) {
    block(s, salt, d, o, decrypt);
    memcpy(d, o, 64);
  }
  bits_to_bytes(d, out, 8);
}
// 64 output bits as 11 base-64 characters, most significant bits first
inline Bytes encode11(const unsigned char c[8]) {
  Bit b[66];
  bytes_to_bits(c, b, 8);
  b[64] = b[65] = 0;
  Bytes o;
  for (int i = 0; i < 11; i++) {
    int v = 0;
    for (int j = 0; j < 6; j++) v = (v << 1) | b[6 * i + j];
    o.push_back(A64[v]);
  }
  return o;
}
inline void key_from_phrase(const Bytes &p, size_t off, unsigned char key[8]) {
  for (int i = 0; i < 8; i++) key[i] = off + i < p.size() ? (unsigned char)((unsigned char)p[off + i] << 1) : 0;
}
}  // namespace des

struct Res {
  bool ok = false;  // reference produced a value
  Bytes h;
};

inline Res descrypt(const Bytes &P, const Bytes &S) {
  Res r;
  if (S.size() < 2 || a64val((unsigned char)S[0]) < 0 || a64val((unsigned char)S[1]) < 0) return r;
  uint32_t salt = (uint32_t)a64val((unsigned char)S[0]) | ((uint32_t)a64val((unsigned char)S[1]) << 6);
  unsigned char key[8], zero[8] = {0}, out[8];
  des::key_from_phrase(P, 0, key);
  des::crypt_bytes(key, salt, 25, zero, out);
  r.h = S.substr(0, 2) + des::encode11(out);
  r.ok = true;
  return r;
}
inline Res bigcrypt(const Bytes &P, const Bytes &S) {
  Res r;
  if (S.size() < 2 || a64val((unsigned char)S[0]) < 0 || a64val((unsigned char)S[1]) < 0) return r;
  uint32_t salt = (uint32_t)a64val((unsigned char)S[0]) | ((uint32_t)a64val((unsigned char)S[1]) << 6);
  size_t nseg = (P.size() + 7) / 8;
  if (nseg < 1) nseg = 1;
  if (nseg > 16) nseg = 16;
  r.h = S.substr(0, 2);
  for (size_t seg = 0; seg < nseg; seg++) {
    unsigned char key[8], zero[8] = {0}, out[8];
    des::key_from_phrase(P, 8 * seg, key);
    des::crypt_bytes(key, salt, 25, zero, out);
    Bytes d = des::encode11(out);
    r.h += d;
    salt = (uint32_t)a64val((unsigned char)d[0]) | ((uint32_t)a64val((unsigned char)d[1]) << 6);
  }
  r.ok = true;
  return r;
}
// the single DES key bsdicrypt folds a phrase into
inline void bsdi_fold_key(const Bytes &P, unsigned char key[8]) {
  unsigned char prev[8] = {0};
  size_t off = 0;
  for (;;) {
    unsigned char blk[8];
    des::key_from_phrase(P, off, blk);
    for (int i = 0; i < 8; i++) key[i] = prev[i] ^ blk[i];
    off += 8;
    if (off >= P.size()) break;
    des::crypt_bytes(key, 0, 1, key, prev);
  }
}
// FIPS 74 weak keys (parity bits ignored): all 16 round keys equal, so E_k is an involution
inline bool des_weak_key(const unsigned char key[8]) {
  static const unsigned char W[4][8] = {{0x00, 0x00, 0x00, 0x00, 0x00, 0x00, 0x00, 0x00}, {0xfe, 0xfe, 0xfe, 0xfe, 0xfe, 0xfe, 0xfe, 0xfe},
                                        {0x1e, 0x1e, 0x1e, 0x1e, 0x0e, 0x0e, 0x0e, 0x0e}, {0xe0, 0xe0, 0xe0, 0xe0, 0xf0, 0xf0, 0xf0, 0xf0}};
  for (auto &w : W) {
    bool eq = true;
    for (int i = 0; i < 8; i++)
      if ((key[i] & 0xfe) != w[i]) eq = false;
    if (eq) return true;
  }
  return false;
}
inline Res bsdicrypt(const Bytes &P, const Bytes &S) {
  Res r;
  if (S.size() < 9 || S[0] != '_') return r;
  uint32_t count = 0, salt = 0;
  for (int i = 0; i < 4; i++) {
    int a = a64val((unsigned char)S[1 + i]), b = a64val((unsigned char)S[5 + i]);
    if (a < 0 || b < 0) return r;
    count |= (uint32_t)a << (6 * i);
    salt |= (uint32_t)b << (6 * i);
  }
  // fold the phrase into one key: K = block0; K = E_K(K) xor next block ...
  unsigned char key[8], prev[8] = {0};
  size_t off = 0;
  for (;;) {
    unsigned char blk[8];
    des::key_from_phrase(P, off, blk);
    for (int i = 0; i < 8; i++) key[i] = prev[i] ^ blk[i];
    off += 8;
    if (off >= P.size()) break;
    des::crypt_bytes(key, 0, 1, key, prev);
  }
  unsigned char zero[8] = {0}, out[8];
  des::crypt_bytes(key, salt, count, zero, out);
  r.h = S.substr(0, 9) + des::encode11(out);
  r.ok = true;
  return r;
}

// ---- md5crypt (Poul-Henning Kamp) --------------------------------------------------
inline Bytes salt_field(const Bytes &S, size_t pos, size_t maxlen) {
  size_t e = S.find('$', pos);
  if (e == Bytes::npos) e = S.size();
  size_t n = e - pos;
  if (n > maxlen) n = maxlen;
  return S.substr(pos, n);
}
inline Res md5crypt(const Bytes &P, const Bytes &S) {
  Res r;
  if (!starts(S, "$1$")) return r;
  Bytes salt = salt_field(S, 3, 8);
  Md alt("MD5");
  alt.up(P); alt.up(salt); alt.up(P);
  Bytes a = alt.fin();
  Md c("MD5");
  c.up(P); c.up("$1$", 3); c.up(salt);
  for (size_t pl = P.size(); pl > 0; pl = pl > 16 ? pl - 16 : 0) c.up(a.data(), pl > 16 ? 16 : pl);
  for (size_t i = P.size(); i; i >>= 1) {
    if (i & 1) c.up("\0", 1);
    else c.up(P.data(), 1);
  }
  Bytes f = c.fin();
  for (int i = 0; i < 1000; i++) {
    Md d("MD5");
    if (i & 1) d.up(P); else d.up(f);
    if (i % 3) d.up(salt);
    if (i % 7) d.up(P);
    if (i & 1) d.up(f); else d.up(P);
    f = d.fin();
  }
  auto u = [&](int i) { return (uint32_t)(unsigned char)f[i]; };
  Bytes o = "$1$" + salt + "$";
  to64(o, (u(0) << 16) | (u(6) << 8) | u(12), 4);
  to64(o, (u(1) << 16) | (u(7) << 8) | u(13), 4);
  to64(o, (u(2) << 16) | (u(8) << 8) | u(14), 4);
  to64(o, (u(3) << 16) | (u(9) << 8) | u(15), 4);
  to64(o, (u(4) << 16) | (u(10) << 8) | u(5), 4);
  to64(o, u(11), 2);
  r.h = o;
  r.ok = true;
  return r;
}

// ---- SHA-crypt (Drepper) ------------------------------------------------------------
inline Res shacrypt(const Bytes &P, const Bytes &S, bool is512) {
  Res r;
  const char *tag = is512 ? "$6$" : "$5$";
  const char *mdn = is512 ? "SHA512" : "SHA256";
  size_t hs = is512 ? 64 : 32;
  if (!starts(S, tag)) return r;
  size_t pos = 3;
  unsigned long long rounds = 5000;
  bool custom = false;
  if (S.compare(pos, 7, "rounds=") == 0) {
    size_t q = pos + 7, e = q;
    unsigned long long v = 0;
    while (e < S.size() && S[e] >= '0' && S[e] <= '9' && e - q < 12) {
      v = v * 10 + (unsigned)(S[e] - '0');
      e++;
    }
    // this implementation family accepts only 1000..999999999 without leading zero
    if (e == q || S[q] == '0' || e >= S.size() || S[e] != '$' || v < 1000 || v > 999999999ULL) return r;
    rounds = v;
    custom = true;
    pos = e + 1;
  }
  Bytes salt = salt_field(S, pos, 16);
  Md b(mdn);
  b.up(P); b.up(salt); b.up(P);
  Bytes B = b.fin();
  Md a(mdn);
  a.up(P); a.up(salt);
  size_t cnt;
  for (cnt = P.size(); cnt > hs; cnt -= hs) a.up(B);
  a.up(B.data(), cnt);
  for (cnt = P.size(); cnt > 0; cnt >>= 1) {
    if (cnt & 1) a.up(B); else a.up(P);
  }
  Bytes A = a.fin();
  Md dp(mdn);
  for (size_t i = 0; i < P.size(); i++) dp.up(P);
  Bytes DP = dp.fin();
  Bytes Pb;
  while (Pb.size() < P.size()) Pb += DP;
  Pb.resize(P.size());
  Md ds(mdn);
  for (unsigned i = 0; i < 16u + (unsigned char)A[0]; i++) ds.up(salt);
  Bytes DS = ds.fin();
  Bytes Sb;
  while (Sb.size() < salt.size()) Sb += DS;
  Sb.resize(salt.size());
  Bytes C = A;
  for (unsigned long long i = 0; i < rounds; i++) {
    Md c(mdn);
    if (i & 1) c.up(Pb); else c.up(C);
    if (i % 3) c.up(Sb);
    if (i % 7) c.up(Pb);
    if (i & 1) c.up(C); else c.up(Pb);
    C = c.fin();
  }
  auto u = [&](int i) { return (uint32_t)(unsigned char)C[i]; };
  Bytes o = tag;
  if (custom) o += "rounds=" + std::to_string(rounds) + "$";
  o += salt + "$";
  if (!is512) {
    static const int T[10][3] = {{0, 10, 20}, {21, 1, 11}, {12, 22, 2}, {3, 13, 23}, {24, 4, 14}, {15, 25, 5}, {6, 16, 26}, {27, 7, 17}, {18, 28, 8}, {9, 19, 29}};
    for (auto &t : T) to64(o, (u(t[0]) << 16) | (u(t[1]) << 8) | u(t[2]), 4);
    to64(o, (u(31) << 8) | u(30), 3);
  } else {
    static const int T[21][3] = {{0, 21, 42}, {22, 43, 1}, {44, 2, 23}, {3, 24, 45}, {25, 46, 4}, {47, 5, 26}, {6, 27, 48}, {28, 49, 7}, {50, 8, 29}, {9, 30, 51}, {31, 52, 10},
                                 {53, 11, 32}, {12, 33, 54}, {34, 55, 13}, {56, 14, 35}, {15, 36, 57}, {37, 58, 16}, {59, 17, 38}, {18, 39, 60}, {40, 61, 19}, {62, 20, 41}};
    for (auto &t : T) to64(o, (u(t[0]) << 16) | (u(t[1]) << 8) | u(t[2]), 4);
    to64(o, u(63), 2);
  }
  r.h = o;
  r.ok = true;
  return r;
}

// ---- SunMD5 (Alec Muffett), structured like the Solaris original -------------------
inline int md5bit(const unsigned char *d, unsigned n) { return (d[(n % 128) / 8] >> (n % 8)) & 1; }
inline Res sunmd5(const Bytes &P, const Bytes &S) {
  Res r;
  if (!starts(S, "$md5") || S.size() < 5 || (S[4] != '$' && S[4] != ',')) return r;
  size_t pos = 5;
  unsigned long long extra = 0;
  if (S.compare(pos, 7, "rounds=") == 0) {
    size_t q = pos + 7, e = q;
    while (e < S.size() && S[e] >= '0' && S[e] <= '9' && e - q < 11) {
      extra = extra * 10 + (unsigned)(S[e] - '0');
      e++;
    }
    if (e == q || S[q] == '0' || e >= S.size() || S[e] != '$' || extra > 0xffffffffULL - 4096) return r;  // would wrap: not a reference case
    pos = e + 1;
  }
  size_t e = pos;
  while (e < S.size() && is_a64((unsigned char)S[e])) e++;
  if (e < S.size() && S[e] != '$') return r;
  // a "$" directly followed by "$" or the end belongs to the salt
  if (e < S.size() && S[e] == '$' && (e + 1 == S.size() || S[e + 1] == '$')) e++;
  Bytes prefix = S.substr(0, e);
  unsigned long long rounds = 4096 + extra;
  Md m("MD5");
  m.up(P); m.up(prefix);
  Bytes dgb = m.fin();
  unsigned char dg[16];
  memcpy(dg, dgb.data(), 16);
  for (unsigned long long round = 0; round < rounds; round++) {
    Md c("MD5");
    c.up(dg, 16);
    unsigned shift_4[16], shift_7[16], ind4[16], ind7[16];
    for (int i = 0; i < 16; i++) {
      int j = (i + 3) % 16;
      shift_4[i] = dg[j] % 5;
      shift_7[i] = (dg[j] >> (dg[i] % 8)) & 1;
    }
    unsigned shift_a = (unsigned)md5bit(dg, (unsigned)round), shift_b = (unsigned)md5bit(dg, (unsigned)round + 64);
    for (int i = 0; i < 16; i++) ind4[i] = (dg[i] >> shift_4[i]) & 0x0f;
    for (int i = 0; i < 16; i++) ind7[i] = (dg[ind4[i]] >> shift_7[i]) & 0x7f;
    unsigned ia = 0, ib = 0;
    for (int i = 0; i < 8; i++) {
      ia |= (unsigned)md5bit(dg, ind7[i]) << i;
      ib |= (unsigned)md5bit(dg, ind7[i + 8]) << i;
    }
    ia = (ia >> shift_a) & 0x7f;
    ib = (ib >> shift_b) & 0x7f;
    if (md5bit(dg, ia) ^ md5bit(dg, ib)) c.up(HAMLET, sizeof HAMLET);
    std::string num = std::to_string(round);
    c.up(num);
    Bytes f = c.fin();
    memcpy(dg, f.data(), 16);
  }
  auto u = [&](int i) { return (uint32_t)dg[i]; };
  Bytes o = prefix + "$";
  to64(o, (u(0) << 16) | (u(6) << 8) | u(12), 4);
  to64(o, (u(1) << 16) | (u(7) << 8) | u(13), 4);
  to64(o, (u(2) << 16) | (u(8) << 8) | u(14), 4);
  to64(o, (u(3) << 16) | (u(9) << 8) | u(15), 4);
  to64(o, (u(4) << 16) | (u(10) << 8) | u(5), 4);
  to64(o, u(11), 2);
  r.h = o;
  r.ok = true;
  return r;
}

// ---- sha1crypt (NetBSD): iterated HMAC-SHA1 -----------------------------------------
inline Res sha1crypt(const Bytes &P, const Bytes &S) {
  Res r;
  if (!starts(S, "$sha1$")) return r;
  size_t q = 6, e = q;
  if (e < S.size() && S[e] == '+') e++;  // strtoul-compatible spelling
  size_t ds = e;
  unsigned long long it = 0;
  while (e < S.size() && S[e] >= '0' && S[e] <= '9' && e - ds < 18) {
    it = it * 10 + (unsigned)(S[e] - '0');
    e++;
  }
  if (e >= S.size() || S[e] != '$') return r;
  if (e == ds && ds != q) return r;  // a lone '+' is not a number
  size_t sp = e + 1, se = sp;
  while (se < S.size() && is_a64((unsigned char)S[se])) se++;
  if (se == sp || (se < S.size() && S[se] != '$')) return r;
  Bytes salt = S.substr(sp, se - sp);
  std::string its = std::to_string(it);
  Bytes h = hmac("SHA1", P, salt + "$sha1$" + its);
  for (unsigned long long i = 1; i < it; i++) h = hmac("SHA1", P, h);
  auto u = [&](int i) { return (uint32_t)(unsigned char)h[i]; };
  Bytes o = "$sha1$" + its + "$" + salt + "$";
  for (int i = 0; i + 3 < 20; i += 3) to64(o, (u(i) << 16) | (u(i + 1) << 8) | u(i + 2), 4);
  to64(o, (u(18) << 16) | (u(19) << 8) | u(0), 4);
  r.h = o;
  r.ok = true;
  return r;
}

// ---- NT hash: MD4 over the UCS-2LE expansion of the (ISO 8859-1) phrase -----------------
inline Res nthash(const Bytes &P, const Bytes &S) {
  Res r;
  if (!starts(S, "$3$")) return r;
  Bytes u;
  for (unsigned char c : P) {
    u.push_back((char)c);
    u.push_back('\0');
  }
  Bytes d = gcry_digest(GCRY_MD_MD4, u);
  static const char *hx = "0123456789abcdef";
  Bytes o = "$3$$";
  for (unsigned char c : d) {
    o.push_back(hx[c >> 4]);
    o.push_back(hx[c & 15]);
  }
  r.h = o;
  r.ok = true;
  return r;
}

// ---- bcrypt (Provos & Mazieres), Blowfish state from the digits of pi --------------------
struct BF {
  uint32_t P[18], S[4][256];
  void init() {
    for (int i = 0; i < 18; i++) P[i] = PI_WORDS[i];
    for (int b = 0; b < 4; b++)
      for (int i = 0; i < 256; i++) S[b][i] = PI_WORDS[18 + 256 * b + i];
  }
  uint32_t F(uint32_t x) const { return ((S[0][x >> 24] + S[1][(x >> 16) & 255]) ^ S[2][(x >> 8) & 255]) + S[3][x & 255]; }
  void enc(uint32_t &l, uint32_t &r) const {
    uint32_t L = l, R = r;
    for (int i = 0; i < 16; i += 2) {
      L ^= P[i];
      R ^= F(L);
      R ^= P[i + 1];
      L ^= F(R);
    }
    L ^= P[16];
    R ^= P[17];
    l = R;
    r = L;
  }
  // key words: 18 words taken cyclically from the NUL-terminated key
  void expand(const uint32_t kw[18], const uint32_t salt[4], bool use_salt) {
    for (int i = 0; i < 18; i++) P[i] ^= kw[i];
    uint32_t l = 0, r = 0;
    int s = 0;
    for (int i = 0; i < 18; i += 2) {
      if (use_salt) {
        l ^= salt[s & 3];
        r ^= salt[(s + 1) & 3];
        s += 2;
      }
      enc(l, r);
      P[i] = l;
      P[i + 1] = r;
    }
    for (int b = 0; b < 4; b++)
      for (int i = 0; i < 256; i += 2) {
        if (use_salt) {
          l ^= salt[s & 3];
          r ^= salt[(s + 1) & 3];
          s += 2;
        }
        enc(l, r);
        S[b][i] = l;
        S[b][i + 1] = r;
      }
  }
};
inline bool bf_b64_decode(const Bytes &s, size_t pos, unsigned char *out, size_t n) {
  // big-endian 6-bit groups
  size_t o = 0;
  uint32_t acc = 0;
  int bits = 0;
  while (o < n) {
    if (pos >= s.size()) return false;
    int v = bf64val((unsigned char)s[pos++]);
    if (v < 0) return false;
    acc = (acc << 6) | (uint32_t)v;
    bits += 6;
    if (bits >= 8) {
      bits -= 8;
      out[o++] = (unsigned char)((acc >> bits) & 0xff);
    }
  }
  return true;
}
inline Bytes bf_b64_encode(const unsigned char *in, size_t n) {
  Bytes o;
  uint32_t acc = 0;
  int bits = 0;
  for (size_t i = 0; i < n; i++) {
    acc = (acc << 8) | in[i];
    bits += 8;
    while (bits >= 6) {
      bits -= 6;
      o.push_back(BF64[(acc >> bits) & 63]);
    }
  }
  if (bits) o.push_back(BF64[(acc << (6 - bits)) & 63]);
  return o;
}
// variant: 'b','y' correct; 'a' correct (callers must not pass phrases that trigger the 2a safety); 'x' sign-extension bug
inline Res bcrypt(const Bytes &P, const Bytes &S) {
  Res r;
  if (S.size() < 29 || S[0] != '$' || S[1] != '2' || !strchr("abxy", S[2]) || S[3] != '$' || S[6] != '$') return r;
  if (S[4] < '0' || S[4] > '3' || S[5] < '0' || S[5] > '9') return r;
  int cost = (S[4] - '0') * 10 + (S[5] - '0');
  if (cost < 4 || cost > 31) return r;
  unsigned char saltb[16];
  if (!bf_b64_decode(S, 7, saltb, 16)) return r;
  // the 22nd character must still be in the alphabet
  if (bf64val((unsigned char)S[28]) < 0) return r;
  uint32_t salt[4];
  for (int i = 0; i < 4; i++) salt[i] = ((uint32_t)saltb[4 * i] << 24) | ((uint32_t)saltb[4 * i + 1] << 16) | ((uint32_t)saltb[4 * i + 2] << 8) | saltb[4 * i + 3];
  bool bug = S[2] == 'x';
  uint32_t kw[18];
  size_t kl = P.size() + 1, ki = 0;  // key including its NUL
  for (int i = 0; i < 18; i++) {
    uint32_t w = 0;
    for (int j = 0; j < 4; j++) {
      unsigned char c = ki < P.size() ? (unsigned char)P[ki] : 0;
      if (bug) w = (w << 8) | (uint32_t)(int32_t)(signed char)c;
      else w = (w << 8) | c;
      ki = (ki + 1) % kl;
    }
    kw[i] = w;
  }
  uint32_t zero[4] = {0, 0, 0, 0};
  uint32_t sw[18];
  for (int i = 0; i < 18; i++) sw[i] = salt[i & 3];
  BF bf;
  bf.init();
  bf.expand(kw, salt, true);
  uint64_t n = 1ULL << cost;
  for (uint64_t i = 0; i < n; i++) {
    bf.expand(kw, zero, false);
    bf.expand(sw, zero, false);
  }
  uint32_t ct[6] = {0x4f727068, 0x65616e42, 0x65686f6c, 0x64657253, 0x63727944, 0x6f756274};  // "OrpheanBeholderScryDoubt"
  for (int k = 0; k < 64; k++)
    for (int i = 0; i < 6; i += 2) bf.enc(ct[i], ct[i + 1]);
  unsigned char cb[24];
  for (int i = 0; i < 6; i++) {
    cb[4 * i] = (unsigned char)(ct[i] >> 24);
    cb[4 * i + 1] = (unsigned char)(ct[i] >> 16);
    cb[4 * i + 2] = (unsigned char)(ct[i] >> 8);
    cb[4 * i + 3] = (unsigned char)ct[i];
  }
  r.h = S.substr(0, 7) + bf_b64_encode(saltb, 16) + bf_b64_encode(cb, 23);
  r.ok = true;
  return r;
}
inline bool bcrypt_2a_safe_for_ref(const Bytes &P) { return memchr(P.data(), 0xff, P.size()) == nullptr; }

// ---- scrypt with the "$7$" encoding ------------------------------------------------------
inline Res scrypt7(const Bytes &P, const Bytes &S) {
  Res r;
  init();
  if (!starts(S, "$7$") || S.size() < 14) return r;
  int nl = a64val((unsigned char)S[3]);
  if (nl < 1) return r;
  uint64_t rr = 0, pp = 0;
  for (int i = 0; i < 5; i++) {
    int a = a64val((unsigned char)S[4 + i]), b = a64val((unsigned char)S[9 + i]);
    if (a < 0 || b < 0) return r;
    rr |= (uint64_t)a << (6 * i);
    pp |= (uint64_t)b << (6 * i);
  }
  size_t e = S.rfind('$');
  Bytes salt = (e != Bytes::npos && e >= 14) ? S.substr(14, e - 14) : S.substr(14);
  unsigned char dk[32];
  if (nl > 24 || rr == 0 || pp == 0) return r;
  if (EVP_PBE_scrypt(P.data(), P.size(), (const unsigned char *)salt.data(), salt.size(), 1ULL << nl, rr, pp, 1ULL << 30, dk, 32) != 1) return r;
  r.h = S.substr(0, 14) + salt + "$" + b64le_encode(Bytes((char *)dk, 32));
  r.ok = true;
  return r;
}

// ---- gost-yescrypt outer layer (R 50.1.113-2016 HMAC over Streebog-256) --------------------
// yres: the "$y$..." result for the corresponding yescrypt setting (from R2).
inline Res gost_outer(const Bytes &P, const Bytes &gost_setting, const Bytes &yres) {
  Res r;
  size_t e = yres.rfind('$');
  if (e == Bytes::npos) return r;
  Bytes y;
  if (!b64le_decode(yres.substr(e + 1), y) || y.size() != 32) return r;
  size_t slen = e + 1;  // bytes of the caller's setting that are authenticated
  if (gost_setting.size() < slen) return r;
  Bytes hk = gcry_digest(GCRY_MD_STRIBOG256, P);
  Bytes inner = gcry_hmac(GCRY_MD_STRIBOG256, hk, gost_setting.substr(0, slen));
  Bytes outer = gcry_hmac(GCRY_MD_STRIBOG256, inner, y);
  r.h = "$gy$" + yres.substr(3, e + 1 - 3) + b64le_encode(outer);
  r.ok = true;
  return r;
}

}  // namespace ref
}  // namespace vf
