#pragma once
#include "../core.hpp"
