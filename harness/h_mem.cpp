// C04 (memory safety, write confinement) and C05 (fail-closed) over the whole API.
#include "apicall.hpp"
#include "fuzz_decode.hpp"
#include "boundary.hpp"
#include "main.hpp"
#ifndef VF_NO_RC
#include "gen.hpp"
#endif

using namespace vf;

static bool governor_skip(const ApiCase &a, Ctx &ctx, double factor) {
  if (a.entry > E_CRYPT_RA) return false;
  if (a.phrase_null || a.setting_null || a.phrase.size() >= 512 || !passwd_safe(a.setting)) return false;  // rejected before any work
  Cost c = decode_cost(a.setting, a.phrase.size());
  c.units *= factor;
  if (a.prior == 1) {
    Cost c0 = decode_cost(a.s0, a.p0.size());
    if (!affordable(c0, ctx.tier)) return true;
  }
  return !affordable(c, ctx.tier);
}

static std::string len_bucket(size_t n) { return n == 0 ? "0" : n <= 64 ? "1-64" : n < 384 ? "65-383" : n < 512 ? "384-511" : n <= 4096 ? "512-4k" : ">4k"; }

static Verdict c04_check(const KV &c0, Ctx &ctx) {
  KV c = c0.has("fuzzraw") ? fuzz_decode(c0.get("fuzzraw")) : c0;
  ApiCase a = api_from_kv(c);
  if (governor_skip(a, ctx, 2.5)) {
    ctx.st.skipped_cost++;
    return "";
  }
  ApiObs o1 = api_execute(a, a.fill);
  ApiObs o2 = api_execute(a, (a.fill + 1) & 3);
  ctx.st.executed += 2;
  Verdict v = c04_oracle(a, o1, o2);
  if (!v.empty()) return v;
  bool reached = false;
  Method m = M_NONE;
  if (a.entry <= E_CRYPT_RA) {
    m = a.setting_null ? M_NONE : result_method(a.setting, a.phrase.size());
    reached = api_passes_validation(a) && (a.entry == E_CRYPT || o1.wiped || o2.wiped);
  } else if (a.entry != E_CHECKSALT) {
    m = a.setting_null ? M_YESCRYPT : classify_prefix(a.setting);
    reached = m != M_NONE && a.output_size >= 3;
  } else {
    m = a.setting_null ? M_NONE : classify_tag(a.setting);
    reached = true;
  }
  ctx.st.cls(std::string("c04-entry/") + ENTRY_NAME[a.entry] + (reached ? "/reached" : "/rejected-early"));
  if (reached) {
    Bytes key = c.serialize();
    if (ctx.st.nontriv(fnv(key))) ctx.st.sample(api_describe(a) + " -> " + (o1.returned_null ? "NULL errno " + std::to_string(o1.err) : "\"" + vis(o1.ret, 80) + "\""));
    ctx.st.cls(std::string("c04/") + ENTRY_NAME[a.entry] + "/" + METHOD_NAME[m] + "/" + c.get("src"));
    ctx.st.cls("c04-setlen/" + len_bucket(a.setting.size()));
    ctx.st.cls("c04-phrlen/" + len_bucket(a.phrase.size()));
    ctx.st.cls(std::string("c04-place/align") + std::to_string(a.align) + (a.own_fields ? "/own" : ""));
    if (a.entry >= E_GENSALT && a.entry <= E_GENSALT_RA) ctx.st.cls(std::string("c04-nrbytes/") + (a.nrbytes < 0 ? "negative" : a.nrbytes == 0 ? "0" : a.nrbytes <= 64 ? "1-64" : ">64"));
  }
  return "";
}

static Verdict c05_check(const KV &c0, Ctx &ctx) {
  KV c = c0.has("fuzzraw") ? fuzz_decode(c0.get("fuzzraw")) : c0;
  ApiCase a = api_from_kv(c);
  if (a.entry > E_CRYPT_RA) return "";
  if (governor_skip(a, ctx, 2)) {
    ctx.st.skipped_cost++;
    return "";
  }
  ApiObs o = api_execute(a, a.fill);
  ctx.st.executed++;
  bool failed = false;
  Verdict v = c05_oracle(a, o, &failed);
  if (!v.empty()) return v;
  if (!o.problem.empty()) return "C05 " + o.problem + " in " + api_describe(a);
  if (failed) {
    std::string why;
    bool must = api_must_fail(a, why);
    if (!must) why = "method-rejected";
    if (why.compare(0, 20, "malformed-parameters") == 0) why = "malformed-parameters";
    Method m = a.setting_null ? M_NONE : classify_tag(a.setting);
    if (ctx.st.nontriv(fnv(c.serialize()))) ctx.st.sample(api_describe(a) + " -> fails, errno " + std::to_string(o.err) + ", output field \"" + vis(o.out_field, 20) + "\"");
    ctx.st.cls("c05/" + why + "/" + ENTRY_NAME[a.entry] + "/prior" + std::to_string(a.prior));
    ctx.st.cls(std::string("c05-method/") + METHOD_NAME[m] + "/" + why);
  } else
    ctx.st.cls(std::string("c05-success/") + ENTRY_NAME[a.entry]);
  return "";
}

// ---- C05 exhaustive byte grid ---------------------------------------------------------
static const char *const C05_BASES[][3] = {
  // one cheap base per method first (quick tier), two more for the thorough tier
  {"$y$j75$n34PoBLMgF5$", "$y$/6/$C3qEg/", "$y$j7/1.$k2XAnEHBqQ1Ct2aM$k0JbEJ5fA2WnPKYgk0k1kdNMeX2oQQn8vCSHmVzDyw5"},
  {"$gy$j75$n34PoBLMgF5$", "$gy$/6/$C3qEg/", "$gy$j7/1.$k2XAnEHBqQ1Ct2aM$k0JbEJ5fA2WnPKYgk0k1kdNMeX2oQQn8vCSHmVzDyw5"},
  {"$7$40..../....saltsalt$", "$7$5/..../....x", "$7$6/..../....SodiumChloride$rQQn8vCSHmVzDyw5k0JbEJ5fA2WnPKYgk0k1kdNMeX2"},
  {"$2b$04$abcdefghijklmnopqrstuu", "$2b$04$UBVLHeMpJ/QQCv3XqJx8zO", "$2b$04$abcdefghijklmnopqrstuui1D709vfamulimlGcq0qq3UvuUasvEa"},
  {"$2y$04$abcdefghijklmnopqrstuu", "$2y$04$UBVLHeMpJ/QQCv3XqJx8zO", "$2y$04$abcdefghijklmnopqrstuui1D709vfamulimlGcq0qq3UvuUasvEa"},
  {"$2a$04$abcdefghijklmnopqrstuu", "$2a$04$UBVLHeMpJ/QQCv3XqJx8zO", "$2a$04$abcdefghijklmnopqrstuui1D709vfamulimlGcq0qq3UvuUasvEa"},
  {"$2x$04$abcdefghijklmnopqrstuu", "$2x$04$UBVLHeMpJ/QQCv3XqJx8zO", "$2x$04$abcdefghijklmnopqrstuuVUrPmXD6q/nVSSp7pNDhCR9071IfIRe"},
  {"$6$rounds=1000$saltstring$", "$6$rounds=1000$0123456789abcdef", "$6$rounds=1001$salt$Y3Yq3/t3DTx5y9zPwV2Q0ZL6V6ka0kYGJ4tcU/xgTgPhArXbGq1QWSoFVwgBIZJ4QSBbWPPjOzJZDNkRZSkJ1/"},
  {"$5$rounds=1000$saltstring$", "$5$rounds=1000$0123456789abcdef", "$5$rounds=1001$salt$wLHtSW3/ZBUJNSHS1uBPBKpEi0bzAY3tKzHIWI4ogw2"},
  {"$sha1$24$GNdOBWfH$", "$sha1$1$a", "$sha1$30$O8IQFgXK$bXoSOmbBCjJWNPMGgTWNC0gp3W6h"},
  {"$md5$BPm.fm03$", "$md5,rounds=1$saltsalt$$", "$md5$RPgLF6IJ$WTvAlUJ7MqH5xak2FMEwS/"},
  {"$1$saltsalt$", "$1$x", "$1$abcdefgh$G//4keteveJp0qb8z2DxG/"},
  {"$3$", "$3$$", "$3$$8846f7eaee8fb117ad06bdd830b7586c"},
  {"_/...saLt", "_1...abcd", "_J9..CCCCXBrJUJV154M"},
  {"ab............", "Zz.../AAAAAAAAAAAAAAAAAAAAAA", "CC............hashhashha"},
  {"ab", "Zz", "CCNf8Sbh3HDfQ"},
};

static int c05_grid(Ctx &ctx) {
  int nb = ctx.tier.thorough ? 3 : 1;
  size_t idx = 0;
  static const char *P0 = "previous user's phrase", *S0 = "$1$prevsalt$";
  for (size_t mi = 0; mi < sizeof C05_BASES / sizeof *C05_BASES; mi++)
    for (int bi = 0; bi < nb; bi++) {
      Bytes base = C05_BASES[mi][bi];
      // mutations: every position x every byte value 1..255, every truncation, every single deletion
      for (size_t pos = 0; pos <= base.size(); pos++)
        for (int val = -2; val <= 255; val++) {
          if (val == 0) continue;
          if (pos == base.size() && val != -1) continue;
          Bytes s = base;
          if (val == -1) s = base.substr(0, pos);             // truncation
          else if (val == -2) s.erase(pos, 1);                 // deletion
          else if ((unsigned char)base[pos] == val) continue;  // unchanged
          else s[pos] = (char)val;
          if ((idx++ % (size_t)ctx.nshards) != (size_t)ctx.shard) continue;
          ApiCase a;
          a.entry = (int)(idx % 3 == 0 ? E_CRYPT_RN : E_CRYPT_R);
          a.phrase = "pa55phrase";
          a.setting = s;
          a.prior = 1;
          a.p0 = P0;
          a.s0 = S0;
          a.fill = 1;
          a.align = (int)(idx & 15);
          KV c = api_to_kv(a);
          c.set("src", "grid");
          ctx.st.evaluations++;
          if (governor_skip(a, ctx, 2)) { ctx.st.skipped_cost++; continue; }
          ApiObs o = api_execute(a, a.fill);
          ctx.st.executed++;
          bool failed = false;
          Verdict v = c05_oracle(a, o, &failed);
          if (v.empty() && !o.problem.empty()) v = "C05 " + o.problem + " in " + api_describe(a);
          if (!v.empty()) {
            ctx.current(c);
            ctx.fail(c, v);
            return 1;
          }
          if (failed) {
            ctx.st.nontrivial++;
            ctx.st.distinct_by_construction++;
            std::string why;
            if (!api_must_fail(a, why)) why = "method-rejected";
            if (why.compare(0, 20, "malformed-parameters") == 0) why = "method-rejected";
            ctx.st.cls(std::string("c05-grid/") + METHOD_NAME[classify_tag(base)] + "/" + why);
            if (ctx.st.samples.size() < 6 && why == "method-rejected") ctx.st.sample("grid: " + api_describe(a) + " -> errno " + std::to_string(o.err) + " token \"" + vis(o.out_field, 16) + "\"");
          } else
            ctx.st.cls(std::string("c05-grid-stillvalid/") + METHOD_NAME[classify_tag(base)]);
        }
    }
  return 0;
}

#ifndef VF_NO_RC
static Bytes gen_any_setting(Ctx &ctx, std::string &src, bool huge) {
  if (g::coin(1, 12)) {
    // a valid setting followed by text the methods ignore, long enough to run past the 384-byte output field, with
    // one forbidden byte placed anywhere in it - in particular beyond offset 384: the character rule covers the
    // whole setting, however long
    src = "long-tail-badchar";
    g::SOpts o;
    o.cheap = true;
    Method m = g::oneof<Method>({M_DES, M_MD5, M_SHA256, M_SHA512, M_SHA1, M_SUNMD5, M_NT, M_BSDI, M_BF_B, M_YESCRYPT, M_SCRYPT});
    Bytes s = g::valid_setting(m, o).s;
    if (m != M_DES && m != M_BSDI && (s.empty() || s.back() != '$')) s += "$";
    size_t total = (size_t)g::oneof<int>({200, 383, 384, 385, 386, 400, 511, 600, 1000});
    while (s.size() < total) s.push_back(g::PWSAFE_NODOLLAR[g::pick(0, (long long)sizeof(g::PWSAFE_NODOLLAR) - 2)]);
    static const unsigned char BAD[] = {':', ';', '*', '!', '\\', ' ', '\t', '\n', 0x7f, 0x80, 0xff, 0x01, 0x1f};
    size_t lo = s.size() > 20 ? 20 : 0;
    size_t at = g::coin(2, 3) && s.size() > 384 ? (size_t)g::pick(384, (long long)s.size() - 1) : (size_t)g::pick((long long)lo, (long long)s.size() - 1);
    s[at] = (char)BAD[g::pick(0, (long long)sizeof BAD - 1)];
    return s;
  }
  int k = g::wpick({5, 5, 3, 2});
  g::SOpts o;
  o.cheap = true;
  if (huge) o.sha1_salt_max = g::coin(1, 3) ? 20000 : 600;
  switch (k) {
    case 0: src = "valid"; return g::valid_setting(g::any_method(), o).s;
    case 1: src = "mutated"; return g::mutate(g::valid_setting(g::any_method(), o).s, 3, true);
    case 2: src = "raw"; return g::raw_setting(huge ? (g::coin(1, 6) ? 65536 : 700) : 200);
    default: {
      src = "special";
      static const char *sp[] = {"*0", "*1", "*", "", "$", "$$", "$2z$04$abcdefghijklmnopqrstuu", "$md5x", "$8$salt$", "!", ":", "ab:", "_", "_12345678", "$y$", "$7$", "$sha1$", "$sha1$$", "$md5", "$md5$", "$1$", "$6$rounds=0999$s", "$6$rounds=999$s", "$6$rounds=1000000000$s", "$5$rounds=05000$s", "$2b$03$abcdefghijklmnopqrstuu", "$2b$32$abcdefghijklmnopqrstuu", "a", "$gy$", "$3", "\x7f\x7f", "a b"};
      (void)ctx;
      return sp[g::pick(0, (long long)(sizeof sp / sizeof *sp) - 1)];
    }
  }
}
static KV gen_api_case(Ctx &ctx, bool c05) {
  ApiCase a;
  std::string src;
  int e = c05 ? g::wpick({2, 4, 4, 2, 0, 0, 0, 0}) : g::wpick({2, 4, 4, 2, 1, 3, 1, 1});
  a.entry = e;
  a.align = (int)g::pick(0, 15);
  a.fill = (int)g::pick(0, 3);
  a.own_fields = g::coin(1, 3);
  if (e <= E_CRYPT_RA) {
    a.setting = gen_any_setting(ctx, src, !c05);
    size_t pl = g::coin(1, 8) ? (size_t)g::pick(512, c05 ? 1200 : 4096) : g::phrase_len();
    if (g::coin(1, 30)) pl = (size_t)g::oneof<int>({510, 511, 512, 513});
    a.phrase = g::phrase_of_len(pl);
    a.phrase_null = g::coin(1, 60);
    a.setting_null = g::coin(1, 60);
    a.prior = g::wpick({3, 3, 2});
    if (a.prior == 1) {
      g::SOpts o;
      a.s0 = g::valid_setting(g::oneof<Method>({M_MD5, M_DES, M_NT, M_BSDI, M_BF_B, M_SHA256, M_YESCRYPT, M_SHA1}), o).s;
      a.p0 = g::phrase(40);
    }
    if (e == E_CRYPT_RN) {
      int k = g::wpick({6, 2, 2});
      a.size = k == 0 ? 32768 : k == 1 ? g::oneof<long long>({-2147483647LL - 1, -1, 0, 1, 2, 3, 4, 12, 13, 383, 384, 385, 32767, 32768}) : g::pick(-10, 32767);
    }
    if (e == E_CRYPT_RA) {
      a.ra_state = (int)g::pick(0, 3);
      a.size = g::pick(1, 40000);
    }
  } else if (e == E_CHECKSALT) {
    a.setting = gen_any_setting(ctx, src, true);
    a.setting_null = g::coin(1, 40);
  } else {
    src = "gensalt";
    int k = g::wpick({6, 2, 2, 1});
    static const char *PF[] = {"$y$", "$gy$", "$7$", "$2b$", "$2y$", "$2a$", "$2x$", "$6$", "$5$", "$sha1", "$md5", "$1$", "$3$", "_", ""};
    if (k == 0) a.setting = PF[g::pick(0, 14)];
    else if (k == 1) a.setting = gen_any_setting(ctx, src, true);
    else if (k == 2) a.setting = Bytes(PF[g::pick(0, 14)]) + g::chars_from(g::PWSAFE, (size_t)g::pick(0, 40));
    else a.setting_null = true;
    src = "gensalt";
    a.count = g::coin(1, 2) ? 0 : g::coin(1, 2) ? (unsigned long)g::pick(0, 40) : (unsigned long)g::u64();
    int nk = g::wpick({5, 2, 2, 1});
    a.nrbytes = nk == 0 ? g::pick(0, 80) : nk == 1 ? g::pick(81, 600) : nk == 2 ? g::pick(-70000, -1) : g::oneof<long long>({-2147483647LL - 1, -2147483647LL, -1, 2147483647LL});
    if (a.nrbytes > 4096) a.nrbytes = 4096;
    a.rbytes = g::rbytes(a.nrbytes > 0 ? (size_t)(a.nrbytes > 300 ? 300 : a.nrbytes) : 0);
    a.rbytes_null = g::coin(1, 10);
    int ok = g::wpick({5, 3, 1});
    a.output_size = ok == 0 ? 192 : ok == 1 ? g::pick(-3, 300) : g::pick(301, 100000);
  }
  KV c = api_to_kv(a);
  c.set("src", src);
  return c;
}
static int c04_run(Ctx &ctx) {
  return run_rc_generic(ctx, "C04", c04_check, [&]() { return gen_api_case(ctx, false); });
}
static int c05_run(Ctx &ctx) {
  return run_rc_generic(ctx, "C05", c05_check, [&]() { return gen_api_case(ctx, true); });
}
#else
#define c04_run nullptr
#define c05_run nullptr
#endif

// C04 boundary grid: every method's settings at every total length around the size of the output field,
// through every hashing entry point, with and without the object's own fields
static int c04_grid(Ctx &ctx) {
  size_t idx = 0;
  for (size_t L = BOUNDARY_LO; L <= BOUNDARY_HI; L++)
    for (auto &bs : boundary_settings(L)) {
      if ((idx++ % (size_t)ctx.nshards) != (size_t)ctx.shard) continue;
      ApiCase a;
      a.entry = (int)(idx % 4);
      a.phrase = (idx & 4) ? "pw" : "a longer phrase, thirty-two chars";
      a.setting = bs.first;
      a.own_fields = (idx & 8) != 0;
      a.align = (int)(idx % 16);
      a.fill = (int)((idx / 4) % 4);
      a.prior = 0;
      a.ra_state = (int)(idx % 3);
      a.size = 100;
      KV c = api_to_kv(a);
      c.set("src", "boundary");
      ctx.st.evaluations++;
      ctx.current(c);
      Verdict v = c04_check(c, ctx);
      if (!v.empty()) {
        ctx.fail(c, v);
        return 1;
      }
      ctx.st.cls("c04-boundary/" + bs.second.substr(0, bs.second.find('/')));
    }
  return 0;
}

static Prop PROPS[] = {
  {"C04", c04_check, c04_run, c04_grid},
  {"C05", c05_check, c05_run, c05_grid},
};

int main(int argc, char **argv) { return vf_main(argc, argv, PROPS, sizeof PROPS / sizeof *PROPS); }
