// C14 (crypt_ra / crypt_gensalt_ra allocation protocol) and C15 (allocation and
// mapping failures: fault enumeration).  Links libcrypt-ip.a: the library's
// malloc/realloc/free/mmap/munmap go through the ledger in shims.hpp.
#include <sys/wait.h>
#include <unistd.h>

#include "api.hpp"
#include "main.hpp"
#include "methods.hpp"
#include "shims.hpp"
#ifndef VF_NO_RC
#include "gen.hpp"
#endif

using namespace vf;
static const size_t DS = sizeof(struct crypt_data);

// request pool: (phrase, setting); index 0..5 succeed, 6.. fail
static const char *const REQ[][2] = {
  {"alpha", "$1$saltsalt$"}, {"bravo phrase", "ab"}, {"charlie", "$5$rounds=1000$abc$"}, {"delta", "$y$j75$n34PoBLMgF5$"}, {"echo", "$2b$04$abcdefghijklmnopqrstuu"}, {"foxtrot", "_J9..salt"},
  {"golf", "*0"}, {"hotel", "$1$bad salt"}, {"india", ""}, {"juliet", "$zz$"},
};
static const int NREQ = sizeof REQ / sizeof *REQ;
static Bytes expected_for(int ri) {
  static std::map<int, Bytes> cache;
  auto it = cache.find(ri);
  if (it != cache.end()) return it->second;
  HashRes h = hash_rn(REQ[ri][0], REQ[ri][1]);
  Bytes e = h.ok ? h.out : Bytes("\x01" "FAIL");
  cache[ri] = e;
  return e;
}

// realloc-entry observation
static struct {
  bool seen;
  bool zero_ok;
  size_t checked;
  void *expect_ptr;
  long recorded;
} g_re;
static void on_realloc_entry(void *p, size_t ledger_size, size_t) {
  if (p != g_re.expect_ptr) return;
  g_re.seen = true;
  size_t n = g_re.recorded > 0 ? (size_t)g_re.recorded : 0;
  if (n > ledger_size) n = ledger_size;
  g_re.checked = n;
  g_re.zero_ok = true;
  for (size_t i = 0; i < n; i++)
    if (((unsigned char *)p)[i] != 0) g_re.zero_ok = false;
}

// the same observation when the library lets go of the block through free() (allocate-new-then-free-old is as
// sound a way to grow as realloc; the property only says the old block is erased first and nothing is lost)
static void on_release_c14(void *p, size_t ledger_size, char kind) {
  if (kind == 'f') on_realloc_entry(p, ledger_size, 0);
}

struct Slot {
  void *data = nullptr;
  int size = 0;
  bool had_success = false;
};

// history encoding: sequence of 3-byte ops [op, a, b]
static Verdict c14_check(const KV &c, Ctx &ctx) {
  const Bytes &h = c.get("hist");
  auto &S = shim::S();
  S.live.clear();
  S.foreign_free = 0;
  S.on_realloc_entry = on_realloc_entry;
  S.on_release = on_release_c14;
  Slot slots[3];
  Verdict v;
  int grow_after_success = 0, nops = 0, ngrow = 0;
  auto where = [&](size_t i) { return " [op " + std::to_string(i / 3) + " of history " + hex(h) + "]"; };
  for (size_t i = 0; i + 3 <= h.size() && v.empty(); i += 3) {
    int op = (unsigned char)h[i] % 8, a = (unsigned char)h[i + 1], b = (unsigned char)h[i + 2];
    Slot &s = slots[a % 3];
    nops++;
    if (op <= 3) {
      // crypt_ra with request b
      int ri = b % NREQ;
      void *before = s.data;
      int size_before = s.size;
      bool must_grow = !s.data || s.size < 0 || (size_t)s.size < DS;
      g_re = {false, true, 0, s.data, s.size};
      size_t live_before = S.live.size();
      // op 3: the allocation this call needs (if any) fails
      bool inject = op == 3 && must_grow;
      S.begin(inject ? 0 : -1);
      errno = 0;
      char *r = crypt_ra(REQ[ri][0], REQ[ri][1], &s.data, &s.size);
      int err = errno;
      S.end();
      ctx.st.executed++;
      if (inject) {
        // "*data is afterwards either unchanged or a live block": a failed growth must leave the pair as it was
        std::string st0 = "state (" + std::string(before ? "block" : "NULL") + ", " + std::to_string(size_before) + ")";
        if (r) { v = "C14 crypt_ra returned a result although its allocation failed, from " + st0 + where(i); break; }
        if (s.data != before) { v = "C14 after a failed allocation *data changed from " + std::string(before ? "the caller's block" : "NULL") + " to " + (s.data ? "another pointer" : "NULL") + " (the caller's block is lost) from " + st0 + where(i); break; }
        if (s.size != size_before) { v = "C14 after a failed allocation *size changed from " + std::to_string(size_before) + " to " + std::to_string(s.size) + " although *data is unchanged, from " + st0 + where(i); break; }
        if (before && S.live.find(before) == S.live.end()) { v = "C14 after a failed allocation the caller's block is no longer live" + where(i); break; }
        if (S.live.size() != live_before) { v = "C14 a failed crypt_ra changed the number of live blocks" + where(i); break; }
        if (err != ENOMEM) { v = "C14 crypt_ra reports errno " + std::to_string(err) + " after a failed allocation" + where(i); break; }
        ctx.st.cls(std::string("c14-alloc-failure/") + (!before ? "null" : size_before < 0 ? "negative" : "undersized"));
        continue;
      }
      Bytes exp = expected_for(ri);
      bool exp_ok = exp[0] != '\x01';
      std::string st = "state (" + std::string(before ? "block" : "NULL") + ", " + std::to_string(size_before) + ")";
      if (!s.data) { v = "C14 crypt_ra left *data NULL from " + st + where(i); break; }
      auto it = S.live.find(s.data);
      if (it == S.live.end()) { v = "C14 *data is not a live malloc block after crypt_ra from " + st + where(i); break; }
      if (s.size < (int)DS) { v = "C14 *size = " + std::to_string(s.size) + " is below sizeof(struct crypt_data) after crypt_ra from " + st + where(i); break; }
      if (it->second.size < (size_t)s.size) { v = "C14 *size = " + std::to_string(s.size) + " exceeds the real block size " + std::to_string(it->second.size) + " from " + st + where(i); break; }
      if (!must_grow && s.data != before) { v = "C14 crypt_ra replaced a sufficiently large block" + where(i); break; }
      if (must_grow) {
        ngrow++;
        // the undersized block must have been given back (through realloc or free) - if it was not, it is either
        // still *data (caught above: too small) or lost (caught below: live-block count)
        if (before && g_re.seen && size_before > 0 && !g_re.zero_ok) { v = "C14 the undersized block was not erased over its recorded size (" + std::to_string(size_before) + " bytes) before it was given to realloc/free" + where(i); break; }
        if (before && !g_re.seen && S.live.find(before) == S.live.end()) { v = "C14 internal: the undersized block vanished without passing through realloc or free" + where(i); break; }
        // zero-initialised after growth (everything behind the output field)
        const unsigned char *p = (const unsigned char *)s.data;
        for (size_t k = sizeof(((struct crypt_data *)0)->output); k < DS; k++)
          if (p[k]) { v = "C14 the grown block is not zero-initialised (offset " + std::to_string(k) + ") from " + st + where(i); break; }
        if (!v.empty()) break;
        if (s.had_success || slots[(a + 1) % 3].had_success || slots[(a + 2) % 3].had_success) grow_after_success++;
        ctx.st.cls(std::string("c14-start/") + (!before ? "null" : size_before < 0 ? "negative" : "undersized") + (exp_ok ? "/ok" : "/fail"));
        if (S.live.size() != live_before + (before ? 0 : 1)) { v = "C14 crypt_ra changed the number of live blocks by " + std::to_string((long)S.live.size() - (long)live_before) + " from " + st + where(i); break; }
      } else {
        ctx.st.cls(std::string("c14-start/") + ((size_t)size_before == DS ? "valid" : "larger") + (exp_ok ? "/ok" : "/fail"));
        if (S.live.size() != live_before) { v = "C14 crypt_ra allocated or freed although the block was large enough" + where(i); break; }
      }
      if (r) {
        if (r < (char *)s.data || r >= (char *)s.data + DS) { v = "C14 result does not point inside the block" + where(i); break; }
        if (!exp_ok || exp != r) { v = "C14 crypt_ra result \"" + vis(r, 80) + "\" differs from crypt_rn on a fresh object (\"" + vis(exp, 80) + "\")" + where(i); break; }
        s.had_success = true;
      } else if (exp_ok) {
        v = "C14 crypt_ra failed (errno " + std::to_string(errno) + ") for a request crypt_rn answers" + where(i);
        break;
      }
    } else if (op == 4 || op == 5) {
      // caller puts the slot into a start state
      if (s.data) vf_free(s.data);
      s.data = nullptr;
      s.size = 0;
      int st = b % 5;
      size_t n;
      switch (st) {
        case 0: break;
        case 1: s.data = vf_malloc(DS); memset(s.data, 0, DS); s.size = (int)DS; break;
        case 2: n = 1 + ((size_t)b * 131 + (size_t)a * 7) % (DS - 1); s.data = vf_malloc(n); memset(s.data, 0xC3, n); s.size = (int)n; break;
        case 3: s.data = vf_malloc(64 + b); memset(s.data, 0xC3, 64 + (size_t)b); s.size = -(1 + b * 1000); break;
        default: n = DS + 1 + (size_t)b * 17; s.data = vf_malloc(n); memset(s.data, 0xC3, n); s.size = (int)n; break;
      }
    } else if (op == 6) {
      if (s.data) vf_free(s.data);
      s.data = nullptr;
      s.size = 0;
    } else {
      // crypt_gensalt_ra, good or bad arguments
      static const char *PF[] = {"$y$", "$6$", "$2b$", "", "$zz$", "$1$", "$2x$", "$sha1"};
      const char *pf = PF[a % 8];
      unsigned long cnt = (b & 8) ? 99 : 0;
      char rb[64];
      memset(rb, b, sizeof rb);
      int nrb = (b & 16) ? 1 : 64;
      size_t live_before = S.live.size();
      S.begin();
      char *r = crypt_gensalt_ra(pf, cnt, rb, nrb);
      S.end();
      ctx.st.executed++;
      if (!r) {
        if (S.live.size() != live_before) { v = "C14 crypt_gensalt_ra failed but left a block allocated" + where(i); break; }
        ctx.st.cls("c14-gensalt_ra/fail");
      } else {
        auto it = S.live.find(r);
        if (it == S.live.end()) { v = "C14 crypt_gensalt_ra result is not a live malloc block" + where(i); break; }
        if (S.live.size() != live_before + 1) { v = "C14 crypt_gensalt_ra leaked an extra block" + where(i); break; }
        if (strnlen(r, it->second.size) >= it->second.size) { v = "C14 crypt_gensalt_ra result is not NUL-terminated inside its block" + where(i); break; }
        vf_free(r);
        ctx.st.cls("c14-gensalt_ra/ok");
      }
    }
  }
  // the caller frees every live block exactly once; afterwards the ledger must be empty
  for (auto &s : slots)
    if (s.data) {
      if (v.empty() && S.live.find(s.data) == S.live.end()) v = "C14 a block the caller owns is no longer live at the end of the history " + hex(h);
      else if (S.live.count(s.data)) vf_free(s.data);
      s.data = nullptr;
    }
  if (v.empty() && !S.live.empty()) v = "C14 " + std::to_string(S.live.size()) + " block(s) leaked at the end of the history " + hex(h);
  if (v.empty() && S.foreign_free) v = "C14 the library freed a pointer it did not own";
  for (auto &kv : S.live) {
    if (kv.second.mapping) munmap(kv.first, kv.second.size);
    else free(kv.first);
  }
  S.live.clear();
  S.on_realloc_entry = nullptr;
  S.on_release = nullptr;
  if (!v.empty()) return v;
  if (grow_after_success) {
    if (ctx.st.nontriv(fnv(h)) && ctx.st.samples.size() < ctx.st.sample_cap) ctx.st.sample("history of " + std::to_string(nops) + " ops, " + std::to_string(ngrow) + " growths (" + std::to_string(grow_after_success) + " after an earlier success): " + hex(h.substr(0, 60)));
    ctx.st.cls("c14/growth-after-success");
  } else
    ctx.st.cls("c14/other");
  return "";
}

// ---- C15 ---------------------------------------------------------------------------------
// corpus call: kind 0 crypt_ra(fresh), 1 crypt_ra(grow from undersized), 2 crypt_gensalt_ra, 3 crypt_rn
struct FCall {
  int kind;
  Bytes phrase, setting;
};
struct FRes {
  bool null_ret;
  Bytes out;
  int err;
  bool scratch_zero;
  std::vector<shim::Event> ev;
  size_t leaked_heap, leaked_maps;
  std::string problem;
};
static FRes c15_run_call(const FCall &f, long k1, long k2, bool followup, Bytes *follow_out) {
  auto &S = shim::S();
  FRes r{};
  S.live.clear();
  struct crypt_data *cd = nullptr;
  void *ra = nullptr;
  int ras = 0;
  if (f.kind == 3) {
    cd = (struct crypt_data *)malloc(DS);
    memset(cd, 0x5e, DS);
  } else if (f.kind == 1) {
    ra = vf_malloc(100);
    memset(ra, 0xC3, 100);
    ras = 100;
  }
  size_t own_before = S.live.size();
  char rb[64];
  for (int i = 0; i < 64; i++) rb[i] = (char)(i * 5 + 1);
  S.begin(k1, k2);
  errno = 0;
  char *p = nullptr;
  switch (f.kind) {
    case 0: case 1: p = crypt_ra(f.phrase.c_str(), f.setting.c_str(), &ra, &ras); break;
    case 2: p = crypt_gensalt_ra(f.setting.c_str(), 0, rb, 64); break;
    default: p = crypt_rn(f.phrase.c_str(), f.setting.c_str(), cd, (int)DS); break;
  }
  r.err = errno;
  r.ev = S.events;
  S.end();
  r.null_ret = p == nullptr;
  if (p) r.out = p;
  // what is still live that the call obtained (the caller's data block / result string are accounted separately)
  for (auto &kv : S.live) {
    if (kv.first == ra || kv.first == (void *)p) continue;
    if (kv.second.mapping) {
      // a mapping may stay only if its own munmap was the injected failure (and was not retried successfully)
      bool excused = false;
      for (void *q : S.failed_unmaps)
        if (q == kv.first) excused = true;
      if (!excused) r.leaked_maps++;
    } else
      r.leaked_heap++;
  }
  (void)own_before;
  struct crypt_data *obj = f.kind == 3 ? cd : (struct crypt_data *)ra;
  r.scratch_zero = true;
  if (obj && (f.kind == 3 || ras >= (int)DS)) {
    if (obj->initialized) r.scratch_zero = false;
    for (size_t i = 0; i < sizeof obj->internal; i++) if (obj->internal[i]) r.scratch_zero = false;
    for (size_t i = 0; i < sizeof obj->reserved; i++) if (obj->reserved[i]) r.scratch_zero = false;
  }
  if (f.kind <= 1 && ra && ras < (int)DS && !(f.kind == 1 && ras == 100)) r.problem = "crypt_ra left *size = " + std::to_string(ras) + " with a non-NULL block";
  if (f.kind == 1 && p == nullptr && ra && ras == 100) {
    // realloc failed: the caller still owns the old block, which must have been erased
    for (size_t i = 0; i < 100; i++) if (((unsigned char *)ra)[i]) r.problem = "after a failed realloc the old (undersized) block is not erased";
  }
  if (followup && follow_out) {
    // the next, fault-free call on the same objects behaves normally
    char *q = nullptr;
    errno = 0;
    switch (f.kind) {
      case 0: case 1: q = crypt_ra(f.phrase.c_str(), f.setting.c_str(), &ra, &ras); break;
      case 2: q = crypt_gensalt_ra(f.setting.c_str(), 0, rb, 64); break;
      default: q = crypt_rn(f.phrase.c_str(), f.setting.c_str(), cd, (int)DS); break;
    }
    *follow_out = q ? Bytes(q) : Bytes("\x01" "NULL errno ") + std::to_string(errno);
    if (f.kind == 2 && q) vf_free(q);
  }
  if (f.kind == 2 && p) vf_free(p);
  if (ra) vf_free(ra);
  free(cd);
  // release whatever the injected failures left behind
  for (auto &kv : S.live) {
    if (kv.second.mapping) munmap(kv.first, kv.second.size);
    else free(kv.first);
  }
  S.live.clear();
  return r;
}

// crypt() and crypt_gensalt() keep their result in storage the library owns.  Whatever that storage is, a request
// for it can only be issued by the first call of a process: each probe therefore runs in a forked child of this
// process, which itself never calls the two functions.
struct SRes {
  bool crashed = false, null_ret = true;
  int err = 0, wstatus = 0;
  long nreq = 0;
  Bytes out, follow;
};
static SRes c15_static_child(int which, const Bytes &P, const Bytes &Sx, long k) {
  SRes r;
  int fd[2];
  if (pipe(fd)) { r.crashed = true; return r; }
  fflush(stdout);
  fflush(stderr);
  pid_t pid = fork();
  if (pid == 0) {
    close(fd[0]);
    auto &S = shim::S();
    char *(*volatile fcrypt_)(const char *, const char *) = crypt;
    char *(*volatile fgensalt_)(const char *, unsigned long, const char *, int) = crypt_gensalt;
    char rb[32];
    memset(rb, 0x41, sizeof rb);
    S.begin(k, -1);
    errno = 0;
    char *p = which == 0 ? fcrypt_(P.c_str(), Sx.c_str()) : fgensalt_(Sx.c_str(), 0, rb, 32);
    int e = errno;
    long nreq = 0;
    for (auto &ev : S.events)
      if (ev.kind != 'f') nreq++;
    S.end();
    std::string first = p ? p : "";
    char *q = which == 0 ? fcrypt_(P.c_str(), Sx.c_str()) : fgensalt_(Sx.c_str(), 0, rb, 32);
    std::string msg = std::string(p ? "1" : "0") + "\n" + std::to_string(e) + "\n" + std::to_string(nreq) + "\n" + first + "\n" + (q ? q : "\x01NULL") + "\n";
    (void)!write(fd[1], msg.data(), msg.size());
    _exit(0);
  }
  close(fd[1]);
  std::string buf;
  char t[1024];
  ssize_t n;
  while ((n = read(fd[0], t, sizeof t)) > 0) buf.append(t, (size_t)n);
  close(fd[0]);
  int st = 0;
  waitpid(pid, &st, 0);
  r.wstatus = st;
  std::vector<std::string> f;
  size_t pos = 0;
  while (pos < buf.size()) {
    size_t e = buf.find('\n', pos);
    if (e == std::string::npos) break;
    f.push_back(buf.substr(pos, e - pos));
    pos = e + 1;
  }
  if (!WIFEXITED(st) || WEXITSTATUS(st) != 0 || f.size() < 5) { r.crashed = true; return r; }
  r.null_ret = f[0] == "0";
  r.err = atoi(f[1].c_str());
  r.nreq = atol(f[2].c_str());
  r.out = f[3];
  r.follow = f[4];
  return r;
}
static Verdict c15_static(const KV &c, Ctx &ctx) {
  int which = (int)c.geti("static_entry") & 1;
  Bytes P = c.get("phrase"), Sx = c.get("setting");
  P = P.substr(0, P.find('\0'));
  Sx = Sx.substr(0, Sx.find('\0'));
  Cost cost = decode_cost(Sx, P.size());
  cost.units *= 8;
  if (which == 0 && !affordable(cost, ctx.tier, 80ULL << 20)) { ctx.st.skipped_cost++; return ""; }
  shim::S().map_cap = 512ULL << 20;
  std::string desc = std::string(which == 0 ? "crypt" : "crypt_gensalt") + "(" + (which == 0 ? "\"" + vis(P, 20) + "\", " : "") + "\"" + vis(Sx, 80) + "\") as the first such call of a process";
  SRes base = c15_static_child(which, P, Sx, -1);
  ctx.st.executed += 2;
  if (base.crashed) return "C15 internal: the fault-free " + desc + " did not complete (wait status " + std::to_string(base.wstatus) + ")";
  ctx.st.cls(std::string("c15-static/") + (which == 0 ? "crypt" : "crypt_gensalt") + "/requests" + std::to_string(base.nreq));
  for (long k = 0; k < base.nreq; k++) {
    SRes r = c15_static_child(which, P, Sx, k);
    ctx.st.executed += 2;
    std::string at = " with request " + std::to_string(k) + " failing, in " + desc;
    if (r.crashed) return "C15 the process was terminated (wait status " + std::to_string(r.wstatus) + ")" + at;
    ctx.st.nontrivial++;
    ctx.st.distinct_by_construction++;
    bool token = !r.null_ret && !r.out.empty() && r.out[0] == '*';
    bool same = !r.null_ret && r.out == base.out;
    // a failed huge-page attempt may be retried; otherwise the call must fail
    if (!r.null_ret && !token && !same) return "C15 the call returned \"" + vis(r.out, 80) + "\" although a request failed" + at;
    if ((r.null_ret || token) && r.err != EINVAL && r.err != ERANGE && r.err != ENOMEM) return "C15 errno " + std::to_string(r.err) + " after a failed request is not a documented code" + at;
    if (which == 0 && r.follow != base.follow) return "C15 the next fault-free call gives \"" + vis(r.follow, 80) + "\" instead of \"" + vis(base.follow, 80) + "\"" + at;
  }
  if (ctx.st.samples.size() < ctx.st.sample_cap && ctx.st.seen.insert(fnv(c.serialize())).second) ctx.st.sample(desc + ": " + std::to_string(base.nreq) + " allocator/mapping requests, every one failed in turn (each in a fresh child)");
  return "";
}

static Verdict c15_check(const KV &c, Ctx &ctx) {
  if (c.has("static_entry")) return c15_static(c, ctx);
  FCall f;
  f.kind = (int)c.geti("kind") & 3;
  f.phrase = c.get("phrase");
  f.setting = c.get("setting");
  f.phrase = f.phrase.substr(0, f.phrase.find('\0'));
  f.setting = f.setting.substr(0, f.setting.find('\0'));
  Cost cost = decode_cost(f.setting, f.phrase.size());
  cost.units *= 8;
  uint64_t cap = ctx.tier.thorough ? (300ULL << 20) : (80ULL << 20);
  if (f.kind != 2 && !affordable(cost, ctx.tier, cap)) {
    ctx.st.skipped_cost++;
    return "";
  }
  auto &S = shim::S();
  S.map_cap = 512ULL << 20;
  // fault-free run: expected result and the request sequence
  Bytes base_follow;
  FRes base = c15_run_call(f, -1, -1, true, &base_follow);
  ctx.st.executed += 2;
  size_t n = base.ev.size();
  std::string desc = std::string(f.kind == 0 ? "crypt_ra(fresh)" : f.kind == 1 ? "crypt_ra(grow)" : f.kind == 2 ? "crypt_gensalt_ra" : "crypt_rn") + "(\"" + vis(f.phrase, 20) + "\", \"" + vis(f.setting, 80) + "\")";
  if (base.leaked_heap || base.leaked_maps) return "C15 the fault-free call leaks " + std::to_string(base.leaked_heap) + " heap block(s) and " + std::to_string(base.leaked_maps) + " mapping(s): " + desc;
  // count only requests that can fail: m r M U
  std::vector<long> idx;
  for (size_t i = 0; i < n; i++)
    if (base.ev[i].kind != 'f') idx.push_back((long)i);
  // note: S.req counts malloc/realloc/mmap/munmap requests only (free never consults the schedule)
  long nreq = (long)idx.size();
  Method m = f.kind == 2 ? classify_prefix(f.setting) : result_method(f.setting, f.phrase.size());
  ctx.st.cls(std::string("c15-calls/") + (f.kind == 2 ? "gensalt_ra/" : f.kind == 3 ? "crypt_rn/" : "crypt_ra/") + METHOD_NAME[m] + "/requests" + std::to_string(nreq));
  auto eval = [&](long k1, long k2) -> Verdict {
    Bytes follow;
    FRes r = c15_run_call(f, k1, k2, true, &follow);
    ctx.st.executed += 2;
    std::string at = " with request " + std::to_string(k1) + (k2 >= 0 ? " and " + std::to_string(k2) : "") + " failing, in " + desc;
    if (!r.problem.empty()) return "C15 " + r.problem + at;
    // which requests were injected, and was the injected one advisory (huge-page attempt, retried)?
    bool any_injected = false, all_advisory = true, munmap_injected = false;
    std::vector<shim::Event> reqs;
    for (auto &e : r.ev)
      if (e.kind != 'f') reqs.push_back(e);
    for (long k : {k1, k2}) {
      if (k < 0 || k >= (long)reqs.size()) continue;
      any_injected = true;
      const shim::Event &e = reqs[(size_t)k];
      bool advisory = e.kind == 'M' && (e.flags & MAP_HUGETLB) && (size_t)k + 1 < reqs.size() && reqs[(size_t)k + 1].kind == 'M' && !reqs[(size_t)k + 1].failed;
      if (!advisory) all_advisory = false;
      if (e.kind == 'U') munmap_injected = true;
    }
    if (!any_injected) return "";  // the schedule was not reached (shorter path)
    ctx.st.nontrivial++;
    ctx.st.distinct_by_construction++;
    ctx.st.cls(std::string("c15-fault/") + (k2 >= 0 ? "pair" : "single") + "/" + reqs[(size_t)k1].kind + (all_advisory ? "/advisory" : ""));
    if (all_advisory) {
      if (r.null_ret || r.out != base.out) return "C15 a failed huge-page attempt that was retried successfully must not change the result: got " + (r.null_ret ? std::string("NULL") : vis(r.out, 80)) + at;
    } else {
      if (!r.null_ret) return "C15 the call returned \"" + vis(r.out, 80) + "\" although an allocation/mapping request failed" + at;
      if (r.err != EINVAL && r.err != ERANGE && r.err != ENOMEM) return "C15 errno " + std::to_string(r.err) + " after a failed request is not a documented code" + at;
    }
    (void)munmap_injected;
    if (r.leaked_heap) return "C15 " + std::to_string(r.leaked_heap) + " heap block(s) leaked" + at;
    if (r.leaked_maps) return "C15 " + std::to_string(r.leaked_maps) + " mapping(s) the call obtained are still mapped although munmap was never refused for them (leak)" + at;
    if (!r.scratch_zero) return "C15 scratch memory of the data object not erased" + at;
    if (follow != base_follow) return "C15 the next fault-free call on the same objects gives \"" + vis(follow, 80) + "\" instead of \"" + vis(base_follow, 80) + "\"" + at;
    return "";
  };
  for (long k = 0; k < nreq; k++) {
    Verdict v = eval(k, -1);
    if (!v.empty()) return v;
  }
  // sampled pairs
  if (nreq >= 2) {
    long a = (long)(c.geti("pair_a") % nreq), b = (long)(c.geti("pair_b") % nreq);
    if (a != b) {
      Verdict v = eval(a < b ? a : b, a < b ? b : a);
      if (!v.empty()) return v;
    }
  }
  if (nreq && ctx.st.samples.size() < ctx.st.sample_cap && ctx.st.seen.insert(fnv(c.serialize())).second)
    ctx.st.sample(desc + ": " + std::to_string(nreq) + " allocator/mapping requests, every one failed in turn");
  return "";
}

#ifndef VF_NO_RC
static int c14_run(Ctx &ctx) {
  return run_rc_generic(ctx, "C14", c14_check, [&]() {
    KV c;
    size_t n = (size_t)g::pick(3, 40);
    Bytes h;
    bool seeded_success = g::coin(2, 3);
    if (seeded_success) {
      // start with a success, then a caller-made undersized/negative block, then crypt_ra again
      h.push_back((char)0); h.push_back((char)g::pick(0, 2)); h.push_back((char)g::pick(0, 5));
    }
    for (size_t i = 0; i < n; i++) {
      int op = g::wpick({4, 2, 2, 2, 3, 2, 1, 2});
      h.push_back((char)op);
      h.push_back((char)g::pick(0, 255));
      h.push_back((char)g::pick(0, 255));
    }
    c.set("hist", h);
    return c;
  });
}
static int c15_run(Ctx &ctx) {
  return run_rc_generic(ctx, "C15", c15_check, [&]() {
    KV c;
    int kind = g::wpick({2, 2, 2, 5});
    c.seti("kind", kind);
    g::SOpts o;
    Method m = g::coin(1, 2) ? g::oneof<Method>({M_YESCRYPT, M_SCRYPT, M_GOST}) : g::any_method();
    Bytes s = g::valid_setting(m, o).s;
    if ((m == M_YESCRYPT || m == M_GOST) && g::coin(1, 4)) {
      // a region of >= 32 MiB so that the huge-page attempt and its retry both occur: N = 2^15, r = 8
      s = Bytes(METHOD_TAG[m]) + "j" + yvar_encode(15, 1) + yvar_encode(8, 1) + "$" + b64le_encode(g::rbytes(12, 0));
    }
    if (kind == 2) s = g::oneof<const char *>({"$y$", "$6$", "$2b$", "", "$zz$", "$7$", "$sha1", "$md5"});
    c.set("setting", s);
    c.set("phrase", g::phrase(200));
    if (g::coin(1, 8)) c.seti("static_entry", g::coin(3, 4) ? 0 : 1);
    c.seti("pair_a", g::pick(0, 1000));
    c.seti("pair_b", g::pick(0, 1000));
    return c;
  });
}
#else
#define c14_run nullptr
#define c15_run nullptr
#endif

static Prop PROPS[] = {
  {"C14", c14_check, c14_run, nullptr},
  {"C15", c15_check, c15_run, nullptr},
};

int main(int argc, char **argv) { return vf_main(argc, argv, PROPS, sizeof PROPS / sizeof *PROPS); }
