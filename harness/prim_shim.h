/* Neutral C interface to the tree's internal primitives (compiled against the
   tree's own headers in prim_shim.c) so that the C++ harness never sees the
   tree's macro renames. */
#ifndef VF_PRIM_SHIM_H
#define VF_PRIM_SHIM_H
#include <stddef.h>
#include <stdint.h>
#ifdef __cplusplus
extern "C" {
#endif
enum { VFP_MD4 = 0, VFP_MD5, VFP_SHA1, VFP_SHA256, VFP_SHA512, VFP_GOST256, VFP_GOST512, VFP_NDIGEST };
size_t vfp_ctx_size(int algo);
size_t vfp_digest_len(int algo);
size_t vfp_block_len(int algo);
void vfp_init(int algo, void *ctx);
void vfp_update(int algo, void *ctx, const void *p, size_t n);
void vfp_final(int algo, void *ctx, unsigned char *out);
int vfp_has_buf(int algo);
/* put an initialised context into the state "bytes_hi:bytes_lo bytes (a multiple of the block length) already hashed,
   chaining value st": 1 when supported for the algorithm */
int vfp_resume(int algo, void *ctx, const uint32_t st32[8], const uint64_t st64[8], uint64_t bytes_hi, uint64_t bytes_lo);
void vfp_buf(int algo, const void *p, size_t n, unsigned char *out);
void vfp_hmac_sha1(const unsigned char *text, size_t tl, const unsigned char *key, size_t kl, unsigned char *out20);
size_t vfp_hmac256_ctx_size(void);
void vfp_hmac256_init(void *ctx, const void *k, size_t kl);
void vfp_hmac256_update(void *ctx, const void *p, size_t n);
void vfp_hmac256_final(void *ctx, unsigned char *out32);
void vfp_hmac256_buf(const void *k, size_t kl, const void *p, size_t n, unsigned char *out32);
size_t vfp_gost_hmac_buf_size(void);
void vfp_gost_hmac256(const unsigned char *k, size_t kl, const unsigned char *t, size_t tl, unsigned char *out32, void *gostbuf);
void vfp_gost_hash256(const unsigned char *t, size_t tl, unsigned char *out32, void *ctx);
void vfp_pbkdf2_sha256(const unsigned char *pw, size_t pwl, const unsigned char *salt, size_t sl, uint64_t c, unsigned char *buf, size_t dklen);
size_t vfp_des_ctx_size(void);
void vfp_des_set_key(void *ctx, const unsigned char key[8]);
void vfp_des_set_salt(void *ctx, uint32_t salt);
void vfp_des_crypt_block(void *ctx, unsigned char *out, const unsigned char *in, unsigned count, int decrypt);
#ifdef __cplusplus
}
#endif
#endif
