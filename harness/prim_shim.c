/* See prim_shim.h.  Compiled as C with the variant's compiler and flags. */
#include "crypt-port.h"
#include "alg-des.h"
#include "alg-gost3411-2012-core.h"
#include "alg-gost3411-2012-hmac.h"
#include "alg-hmac-sha1.h"
#include "alg-md4.h"
#include "alg-md5.h"
#include "alg-sha1.h"
#include "alg-sha256.h"
#include "alg-sha512.h"
#include "prim_shim.h"

size_t vfp_ctx_size(int a) {
  switch (a) {
    case VFP_MD4: return sizeof(MD4_CTX);
    case VFP_MD5: return sizeof(MD5_CTX);
    case VFP_SHA1: return sizeof(struct sha1_ctx);
    case VFP_SHA256: return sizeof(SHA256_CTX);
    case VFP_SHA512: return sizeof(SHA512_CTX);
    default: return sizeof(GOST34112012Context);
  }
}
size_t vfp_digest_len(int a) {
  static const size_t L[] = {16, 16, 20, 32, 64, 32, 64};
  return L[a];
}
size_t vfp_block_len(int a) { return a == VFP_SHA512 ? 128 : 64; }
void vfp_init(int a, void *c) {
  switch (a) {
    case VFP_MD4: MD4_Init(c); break;
    case VFP_MD5: MD5_Init(c); break;
    case VFP_SHA1: sha1_init_ctx(c); break;
    case VFP_SHA256: SHA256_Init(c); break;
    case VFP_SHA512: SHA512_Init(c); break;
    case VFP_GOST256: GOST34112012Init(c, 256); break;
    default: GOST34112012Init(c, 512); break;
  }
}
void vfp_update(int a, void *c, const void *p, size_t n) {
  switch (a) {
    case VFP_MD4: MD4_Update(c, p, n); break;
    case VFP_MD5: MD5_Update(c, p, n); break;
    case VFP_SHA1: sha1_process_bytes(p, c, n); break;
    case VFP_SHA256: SHA256_Update(c, p, n); break;
    case VFP_SHA512: SHA512_Update(c, p, n); break;
    default: GOST34112012Update(c, p, n); break;
  }
}
void vfp_final(int a, void *c, unsigned char *out) {
  switch (a) {
    case VFP_MD4: MD4_Final(out, c); break;
    case VFP_MD5: MD5_Final(out, c); break;
    case VFP_SHA1: sha1_finish_ctx(c, out); break;
    case VFP_SHA256: SHA256_Final(out, c); break;
    case VFP_SHA512: SHA512_Final(out, c); break;
    default: GOST34112012Final(c, out); GOST34112012Cleanup(c); break;
  }
}
int vfp_resume(int a, void *c, const uint32_t st32[8], const uint64_t st64[8], uint64_t bytes_hi, uint64_t bytes_lo) {
  switch (a) {
    case VFP_MD4: {
      MD4_CTX *x = c;
      x->a = st32[0]; x->b = st32[1]; x->c = st32[2]; x->d = st32[3];
      x->lo = (MD4_u32plus)(bytes_lo & 0x1fffffff);
      x->hi = (MD4_u32plus)(bytes_lo >> 29);
      return 1;
    }
    case VFP_MD5: {
      MD5_CTX *x = c;
      x->a = st32[0]; x->b = st32[1]; x->c = st32[2]; x->d = st32[3];
      x->lo = (MD5_u32plus)(bytes_lo & 0x1fffffff);
      x->hi = (MD5_u32plus)(bytes_lo >> 29);
      return 1;
    }
    case VFP_SHA1: {
      struct sha1_ctx *x = c;
      for (int i = 0; i < 5; i++) x->state[i] = st32[i];
      x->count[0] = (uint32_t)(bytes_lo << 3);
      x->count[1] = (uint32_t)(bytes_lo >> 29);
      return 1;
    }
    case VFP_SHA256: {
      SHA256_CTX *x = c;
      for (int i = 0; i < 8; i++) x->state[i] = st32[i];
      x->count = bytes_lo << 3;
      return 1;
    }
    case VFP_SHA512: {
      SHA512_CTX *x = c;
      for (int i = 0; i < 8; i++) x->state[i] = st64[i];
      x->count[0] = (bytes_hi << 3) | (bytes_lo >> 61);
      x->count[1] = bytes_lo << 3;
      return 1;
    }
    default: return 0;
  }
}
int vfp_has_buf(int a) { return a == VFP_SHA256 || a == VFP_SHA512; }
void vfp_buf(int a, const void *p, size_t n, unsigned char *out) {
  if (a == VFP_SHA256) SHA256_Buf(p, n, out);
  else if (a == VFP_SHA512) SHA512_Buf(p, n, out);
}
void vfp_hmac_sha1(const unsigned char *t, size_t tl, const unsigned char *k, size_t kl, unsigned char *out) { hmac_sha1_process_data(t, tl, k, kl, out); }
size_t vfp_hmac256_ctx_size(void) { return sizeof(HMAC_SHA256_CTX); }
void vfp_hmac256_init(void *c, const void *k, size_t kl) { HMAC_SHA256_Init(c, k, kl); }
void vfp_hmac256_update(void *c, const void *p, size_t n) { HMAC_SHA256_Update(c, p, n); }
void vfp_hmac256_final(void *c, unsigned char *out) { HMAC_SHA256_Final(out, c); }
void vfp_hmac256_buf(const void *k, size_t kl, const void *p, size_t n, unsigned char *out) { HMAC_SHA256_Buf(k, kl, p, n, out); }
size_t vfp_gost_hmac_buf_size(void) { return sizeof(gost_hmac_256_t); }
void vfp_gost_hmac256(const unsigned char *k, size_t kl, const unsigned char *t, size_t tl, unsigned char *out, void *b) { gost_hmac256(k, kl, t, tl, out, b); }
void vfp_gost_hash256(const unsigned char *t, size_t tl, unsigned char *out, void *ctx) { gost_hash256(t, tl, out, ctx); }
void vfp_pbkdf2_sha256(const unsigned char *pw, size_t pwl, const unsigned char *s, size_t sl, uint64_t c, unsigned char *buf, size_t dk) { PBKDF2_SHA256(pw, pwl, s, sl, c, buf, dk); }
size_t vfp_des_ctx_size(void) { return sizeof(struct des_ctx); }
void vfp_des_set_key(void *c, const unsigned char k[8]) { des_set_key(c, k); }
void vfp_des_set_salt(void *c, uint32_t s) { des_set_salt(c, s); }
void vfp_des_crypt_block(void *c, unsigned char *o, const unsigned char *i, unsigned n, int d) { des_crypt_block(c, o, i, n, d != 0); }
