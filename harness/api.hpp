// Access to the library under test (statically linked variant) and to the
// released reference library R2 (system libxcrypt, dlopen'ed).
#pragma once
#include <crypt.h>  // the variant's generated header (-I<variant>/include comes first)
#include <dlfcn.h>

#include "core.hpp"

namespace vf {

struct R2 {
  void *h = nullptr;
  char *(*crypt_rn)(const char *, const char *, void *, int) = nullptr;
  char *(*crypt_r)(const char *, const char *, void *) = nullptr;
  char *(*crypt_gensalt_rn)(const char *, unsigned long, const char *, int, char *, int) = nullptr;
  int (*crypt_checksalt)(const char *) = nullptr;
  bool ok() const { return h && crypt_rn; }
  static R2 &get() {
    static R2 r;
    static bool init = false;
    if (!init) {
      init = true;
      const char *path = getenv("VERIF_R2");
      if (!path) path = "/usr/lib/x86_64-linux-gnu/libcrypt.so.1";
      r.h = dlopen(path, RTLD_NOW | RTLD_LOCAL);
      if (r.h) {
        r.crypt_rn = (decltype(r.crypt_rn))dlsym(r.h, "crypt_rn");
        r.crypt_r = (decltype(r.crypt_r))dlsym(r.h, "crypt_r");
        r.crypt_gensalt_rn = (decltype(r.crypt_gensalt_rn))dlsym(r.h, "crypt_gensalt_rn");
        r.crypt_checksalt = (decltype(r.crypt_checksalt))dlsym(r.h, "crypt_checksalt");
      }
    }
    return r;
  }
};

// One hashing call on a fresh zeroed object; returns true on success.
struct HashRes {
  bool ok = false;
  Bytes out;      // returned string (when ok)
  Bytes field;    // contents of data.output after the call (NUL-terminated part)
  int err = 0;
};
inline HashRes hash_rn(const Bytes &phrase, const Bytes &setting) {
  static struct crypt_data *cd = nullptr;
  if (!cd) cd = (struct crypt_data *)calloc(1, sizeof *cd);
  memset(cd, 0, sizeof *cd);
  HashRes r;
  errno = 0;
  char *p = crypt_rn(phrase.c_str(), setting.c_str(), cd, (int)sizeof *cd);
  r.err = errno;
  r.field.assign(cd->output, strnlen(cd->output, sizeof cd->output));
  if (p) {
    r.ok = true;
    r.out.assign(p, strnlen(p, 4096));
  }
  return r;
}
// the same call on an object whose every byte is non-zero garbage (the result must not depend on it)
inline HashRes hash_rn_dirty(const Bytes &phrase, const Bytes &setting, unsigned char fill = 0x5a) {
  static struct crypt_data *cd = nullptr;
  if (!cd) cd = (struct crypt_data *)malloc(sizeof *cd);
  memset(cd, fill, sizeof *cd);
  HashRes r;
  errno = 0;
  char *p = crypt_rn(phrase.c_str(), setting.c_str(), cd, (int)sizeof *cd);
  r.err = errno;
  r.field.assign(cd->output, strnlen(cd->output, sizeof cd->output));
  if (p) {
    r.ok = true;
    r.out.assign(p, strnlen(p, sizeof cd->output));
  }
  return r;
}
inline HashRes hash_r2(const Bytes &phrase, const Bytes &setting) {
  HashRes r;
  R2 &R = R2::get();
  if (!R.ok()) return r;
  static void *cd = nullptr;
  if (!cd) cd = calloc(1, 32768);
  memset(cd, 0, 32768);
  errno = 0;
  char *p = R.crypt_rn(phrase.c_str(), setting.c_str(), cd, 32768);
  r.err = errno;
  if (p) {
    r.ok = true;
    r.out.assign(p, strnlen(p, 4096));
  }
  return r;
}

}  // namespace vf
