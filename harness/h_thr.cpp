// C08: the re-entrant interfaces are thread-safe.  Linked against the
// ThreadSanitizer build of the library; every workload is also checked
// differentially against a single-threaded evaluation of the same calls.
#include <pthread.h>
#include <sched.h>
#include <spawn.h>
#include <sys/wait.h>
#include <time.h>
#include <unistd.h>

#include "api.hpp"
#include "main.hpp"
#include "methods.hpp"
#ifndef VF_NO_RC
#include "gen.hpp"
#endif

using namespace vf;
static const size_t DS = sizeof(struct crypt_data);

struct Req {
  Bytes P, S;
};
struct CallRes {
  bool null_ret = true;
  Bytes out;
  int aux = 0;
  bool operator==(const CallRes &o) const { return null_ret == o.null_ret && out == o.out && aux == o.aux; }
};
// ops: 0 crypt_r 1 crypt_rn 2 crypt_ra 3 crypt_gensalt_rn 4 crypt_gensalt_ra 5 crypt_checksalt 6 crypt_preferred_method
static const char *const OPN[] = {"crypt_r", "crypt_rn", "crypt_ra", "crypt_gensalt_rn", "crypt_gensalt_ra", "crypt_checksalt", "crypt_preferred_method", "crypt_gensalt_rn/_ra(rbytes=NULL)"};
struct ThreadCtx {
  std::vector<std::pair<int, int>> ops;  // (op, request index)
  std::vector<CallRes> res;
  int gaps = 0;
  double t0 = 0, t1 = 0;
  struct crypt_data *cd;
  void *ra = nullptr;
  int ras = 0;
};
static const std::vector<Req> *g_reqs;
static pthread_barrier_t g_bar;
static bool g_use_barrier;

static double now() {
  struct timespec ts;
  clock_gettime(CLOCK_MONOTONIC, &ts);
  return (double)ts.tv_sec + 1e-9 * (double)ts.tv_nsec;
}

static CallRes do_call(ThreadCtx &t, int op, int ri) {
  const Req &r = (*g_reqs)[(size_t)ri];
  CallRes c;
  char rb[64];
  for (int i = 0; i < 64; i++) rb[i] = (char)(ri * 31 + i * 7 + 1);
  switch (op) {
    case 0: { char *p = crypt_r(r.P.c_str(), r.S.c_str(), t.cd); c.null_ret = !p; if (p) c.out = p; break; }
    case 1: { char *p = crypt_rn(r.P.c_str(), r.S.c_str(), t.cd, (int)DS); c.null_ret = !p; if (p) c.out = p; break; }
    case 2: { char *p = crypt_ra(r.P.c_str(), r.S.c_str(), &t.ra, &t.ras); c.null_ret = !p; if (p) c.out = p; break; }
    case 3: {
      char out[CRYPT_GENSALT_OUTPUT_SIZE];
      Bytes pf = r.S.substr(0, r.S.size() < 6 ? r.S.size() : 6);
      char *p = crypt_gensalt_rn(pf.c_str(), 0, rb, 64, out, sizeof out);
      c.null_ret = !p;
      if (p) c.out = p;
      break;
    }
    case 4: {
      Bytes pf = r.S.substr(0, r.S.size() < 6 ? r.S.size() : 6);
      char *p = crypt_gensalt_ra(pf.c_str(), 0, rb, 64);
      c.null_ret = !p;
      if (p) { c.out = p; free(p); }
      break;
    }
    case 7: {
      // OS entropy: the salt differs from call to call by design, so only success and the method tag are compared
      char out[CRYPT_GENSALT_OUTPUT_SIZE];
      Bytes pf = r.S.substr(0, r.S.size() < 6 ? r.S.size() : 6);
      char *p = (ri & 1) ? crypt_gensalt_rn(pf.c_str(), 0, nullptr, 0, out, sizeof out) : crypt_gensalt_ra(pf.c_str(), 0, nullptr, 0);
      c.null_ret = !p;
      if (p) {
        c.out = METHOD_NAME[classify_tag(Bytes(p))];  // only the method is comparable
        // a salt of all '.' means the random bytes were zeros (for 96-bit and longer salts that does not happen)
        Bytes full = p;
        size_t dots = 0;
        for (size_t i = full.size(); i > 0 && full[i - 1] == '.'; i--) dots++;
        if (dots >= 16) c.aux = 1;
        if (!(ri & 1)) free(p);
      }
      break;
    }
    case 5: c.aux = crypt_checksalt(r.S.c_str()); c.null_ret = false; break;
    default: { const char *p = crypt_preferred_method(); c.null_ret = !p; if (p) c.out = p; break; }
  }
  return c;
}

static void *thread_main(void *arg) {
  ThreadCtx &t = *(ThreadCtx *)arg;
  if (g_use_barrier) pthread_barrier_wait(&g_bar);
  t.t0 = now();
  size_t k = 0;
  for (auto &o : t.ops) {
    t.res.push_back(do_call(t, o.first, o.second));
    // generated schedule perturbation
    if ((t.gaps >> (k++ % 16)) & 1) sched_yield();
  }
  t.t1 = now();
  return nullptr;
}

extern char **environ;
// Cold start: the workload is executed by a fresh process (this binary re-executed in replay mode) whose very first
// library calls are the concurrent ones; the single-threaded evaluation comes afterwards.  Lazily initialised shared
// state (tables built on first use, cached lookups) is only racy in that situation.
static Verdict c08_cold_spawn(const KV &c, Ctx &ctx) {
  KV cc = c;
  cc.seti("cold_exec", 1);
  char path[] = "/tmp/vf-c08-cold-XXXXXX";
  int fd = mkstemp(path);
  if (fd < 0) return "";
  std::string text = cc.serialize();
  (void)!write(fd, text.data(), text.size());
  close(fd);
  int pp[2];
  if (pipe(pp)) { unlink(path); return ""; }
  std::string budget = std::to_string(ctx.tier.budget_ms);
  const char *argv[] = {"/proc/self/exe", "--prop", "C08", "--mode", "replay", "--case", path, "--tier", ctx.tier.thorough ? "thorough" : "quick", "--budget-ms", budget.c_str(), nullptr};
  posix_spawn_file_actions_t fa;
  posix_spawn_file_actions_init(&fa);
  posix_spawn_file_actions_adddup2(&fa, pp[1], 1);
  posix_spawn_file_actions_addclose(&fa, pp[0]);
  pid_t pid = 0;
  int rc_ = posix_spawn(&pid, "/proc/self/exe", &fa, nullptr, (char *const *)argv, environ);
  posix_spawn_file_actions_destroy(&fa);
  close(pp[1]);
  std::string out;
  if (rc_ == 0) {
    char buf[4096];
    ssize_t n;
    while ((n = read(pp[0], buf, sizeof buf)) > 0) out.append(buf, (size_t)n);
  }
  close(pp[0]);
  int st = 0;
  if (rc_ == 0) waitpid(pid, &st, 0);
  unlink(path);
  if (rc_ != 0) return "";
  ctx.st.executed++;
  size_t q = out.find("REPLAY-FAIL ");
  if (q != std::string::npos) {
    std::string v = out.substr(q + 12);
    v = v.substr(0, v.find('\n'));
    return "C08 in a fresh process whose first library calls are the concurrent ones: " + v;
  }
  if (WIFEXITED(st) && WEXITSTATUS(st) >= 86 && WEXITSTATUS(st) <= 89) return "C08 ThreadSanitizer reports a data race in a fresh process whose first library calls are the concurrent ones (see the report above in the log)";
  if (!(WIFEXITED(st) && WEXITSTATUS(st) == 0)) return "C08 a fresh process running the workload with threads first terminated abnormally (wait status " + std::to_string(st) + ")";
  if (out.find("C08-COLD nontrivial") != std::string::npos) {
    if (ctx.st.nontriv(fnv(c.serialize())) && ctx.st.samples.size() < ctx.st.sample_cap) ctx.st.sample("cold start: " + out.substr(out.find("C08-COLD nontrivial") + 20, 160).substr(0, out.substr(out.find("C08-COLD nontrivial") + 20, 160).find('\n')));
    ctx.st.cls("c08/cold-start");
  } else
    ctx.st.cls("c08/cold-start-no-overlap");
  return "";
}

static Verdict c08_check(const KV &c, Ctx &ctx) {
  if (c.geti("cold") != 0 && c.geti("cold_exec") == 0) return c08_cold_spawn(c, ctx);
  const bool threads_first = c.geti("cold_exec") != 0;
  int nreq = (int)c.geti("nreq");
  if (nreq < 1) return "";
  if (nreq > 10) nreq = 10;
  std::vector<Req> reqs((size_t)nreq);
  for (int i = 0; i < nreq; i++) {
    reqs[(size_t)i].P = c.get("p" + std::to_string(i));
    reqs[(size_t)i].S = c.get("s" + std::to_string(i));
    reqs[(size_t)i].P = reqs[(size_t)i].P.substr(0, reqs[(size_t)i].P.find('\0'));
    reqs[(size_t)i].S = reqs[(size_t)i].S.substr(0, reqs[(size_t)i].S.find('\0'));
    Cost k = decode_cost(reqs[(size_t)i].S, reqs[(size_t)i].P.size());
    k.units *= 30;  // ThreadSanitizer slow-down and repeated use
    if (c.geti("bigregion") == 0 && passwd_safe(reqs[(size_t)i].S) && reqs[(size_t)i].P.size() < 512 && !affordable(k, ctx.tier)) {
      ctx.st.skipped_cost++;
      return "";
    }
  }
  g_reqs = &reqs;
  int T = (int)c.geti("threads");
  if (T < 2) T = 2;
  if (T > 16) T = 16;
  const Bytes &ops = c.get("ops");
  size_t per = ops.size() / 2 / (size_t)T;
  if (per < 1) return "";
  if (per > 50) per = 50;
  std::vector<ThreadCtx> th((size_t)T);
  for (int i = 0; i < T; i++) {
    for (size_t k = 0; k < per; k++) {
      size_t off = 2 * ((size_t)i * per + k);
      th[(size_t)i].ops.emplace_back((unsigned char)ops[off] % 8, (unsigned char)ops[off + 1] % nreq);
    }
    th[(size_t)i].cd = (struct crypt_data *)calloc(1, DS);
    th[(size_t)i].gaps = (int)((unsigned char)c.get("gaps")[(size_t)i % (c.get("gaps").size() ? c.get("gaps").size() : 1)]) * 257;
  }
  // what every call returns when run alone (single-threaded; before the threads start, or - cold start - after them)
  std::map<std::pair<int, int>, CallRes> alone;
  auto run_alone = [&]() {
    ThreadCtx solo;
    solo.cd = (struct crypt_data *)calloc(1, DS);
    for (auto &t : th)
      for (auto &o : t.ops)
        if (!alone.count(o)) {
          alone[o] = do_call(solo, o.first, o.second);
          ctx.st.executed++;
        }
    free(solo.cd);
    free(solo.ra);
  };
  if (!threads_first) run_alone();
  g_use_barrier = c.geti("barrier") != 0;
  if (g_use_barrier) pthread_barrier_init(&g_bar, nullptr, (unsigned)T);
  std::vector<pthread_t> tid((size_t)T);
  for (int i = 0; i < T; i++) pthread_create(&tid[(size_t)i], nullptr, thread_main, &th[(size_t)i]);
  for (int i = 0; i < T; i++) pthread_join(tid[(size_t)i], nullptr);
  if (g_use_barrier) pthread_barrier_destroy(&g_bar);
  if (threads_first) run_alone();
  Verdict v;
  std::map<int, std::set<int>> method_threads;
  for (int i = 0; i < T && v.empty(); i++) {
    ThreadCtx &t = th[(size_t)i];
    for (size_t k = 0; k < t.ops.size(); k++) {
      ctx.st.executed++;
      const CallRes &want = alone[t.ops[k]];
      if (!(t.res[k] == want)) {
        const Req &r = reqs[(size_t)t.ops[k].second];
        v = std::string("C08 ") + OPN[t.ops[k].first] + "(\"" + vis(r.P, 20) + "\", \"" + vis(r.S, 80) + "\") returned \"" + (t.res[k].null_ret ? "(null)" : vis(t.res[k].out, 100)) + "\"/" + std::to_string(t.res[k].aux) + " in thread " + std::to_string(i) + " of " + std::to_string(T) + " but \"" + (want.null_ret ? "(null)" : vis(want.out, 100)) + "\"/" + std::to_string(want.aux) + " when run alone";
        break;
      }
      if (t.ops[k].first <= 4) method_threads[(int)classify_tag(reqs[(size_t)t.ops[k].second].S)].insert(i);
    }
  }
  // overlap of thread lifetimes (timestamps are taken outside the compared data)
  int overlapping = 0;
  for (int i = 0; i < T; i++)
    for (int j = i + 1; j < T; j++)
      if (th[(size_t)i].t0 < th[(size_t)j].t1 && th[(size_t)j].t0 < th[(size_t)i].t1) overlapping++;
  for (auto &t : th) {
    free(t.cd);
    free(t.ra);
  }
  if (!v.empty()) return v;
  int shared_methods = 0;
  for (auto &kv : method_threads)
    if (kv.second.size() >= 2) {
      shared_methods++;
      ctx.st.cls(std::string("c08-concurrent/") + METHOD_NAME[kv.first]);
    }
  if (threads_first && overlapping && shared_methods) printf("C08-COLD nontrivial %d threads x %zu calls, %d overlapping thread pairs, %d methods run by >= 2 threads\n", T, per, overlapping, shared_methods);
  if (c.geti("bigregion") && overlapping) ctx.st.cls("c08/large-region");
  if (overlapping && shared_methods) {
    if (ctx.st.nontriv(fnv(c.serialize())) && ctx.st.samples.size() < ctx.st.sample_cap) ctx.st.sample(std::to_string(T) + " threads x " + std::to_string(per) + " calls, " + std::to_string(overlapping) + " overlapping thread pairs, " + std::to_string(shared_methods) + " methods run by >= 2 threads" + (g_use_barrier ? ", barrier start" : ""));
    ctx.st.cls(std::string("c08/T") + (T <= 3 ? "2-3" : T <= 8 ? "4-8" : "9-16") + (g_use_barrier ? "/barrier" : "/free"));
  } else
    ctx.st.cls("c08/no-overlap");
  return "";
}

#ifndef VF_NO_RC
static int c08_run(Ctx &ctx) {
  return run_rc_generic(ctx, "C08", c08_check, [&]() {
    KV c;
    bool same = g::coin();
    int nreq = same ? (int)g::pick(1, 2) : (int)g::pick(3, 8);
    c.seti("nreq", nreq);
    g::SOpts o;
    Method m0 = g::any_method();
    for (int i = 0; i < nreq; i++) {
      Method m = same ? m0 : g::any_method();
      Bytes s = g::coin(1, 10) ? Bytes("$zz$bad") : g::valid_setting(m, o).s;
      c.set("s" + std::to_string(i), s);
      c.set("p" + std::to_string(i), g::phrase(511));  // all length classes: > 64 bytes reaches the HMAC key-hashing paths
    }
    int T = (int)g::pick(2, 16);
    c.seti("threads", T);
    c.seti("barrier", g::coin(2, 3));
    size_t per = (size_t)g::pick(10, 30);
    Bytes ops;
    for (size_t i = 0; i < per * (size_t)T; i++) {
      ops.push_back((char)g::wpick({5, 5, 4, 3, 3, 2, 1, 3}));
      ops.push_back((char)g::pick(0, 9));
    }
    c.set("ops", ops);
    c.set("gaps", g::rbytes((size_t)T, 0));
    c.seti("cold", g::coin(1, 3));
    if (g::coin(1, 40)) {
      // a small workload around regions of 32 MiB and more (above yescrypt's huge-page threshold, where the mapping
      // layer takes other paths): 2-4 threads alternate one such hash with a cheap one of the same family; bounded by
      // construction, so it is exempt from the cost governor
      KV b;
      Method fm = g::oneof<Method>({M_YESCRYPT, M_GOST, M_SCRYPT});
      Bytes big = fm == M_SCRYPT ? Bytes("$7$") + Bytes(1, A64[15]) + fixed30_encode(8) + fixed30_encode(1) + g::chars_from(A64, 12)
                                 : Bytes(METHOD_TAG[fm]) + "j" + yvar_encode(15, 1) + yvar_encode(8, 1) + "$" + b64le_encode(g::rbytes(12, 0));
      g::SOpts so;
      b.seti("bigregion", 1);
      b.seti("nreq", 2);
      b.set("s0", big);
      b.set("p0", g::phrase(40));
      b.set("s1", g::valid_setting(g::oneof<Method>({M_YESCRYPT, M_GOST, M_SCRYPT}), so).s);
      b.set("p1", g::phrase(40));
      int Tb = (int)g::pick(2, 4);
      b.seti("threads", Tb);
      b.seti("barrier", 1);
      Bytes bops;
      for (int i = 0; i < Tb * 4; i++) {
        bops.push_back((char)g::pick(0, 2));
        bops.push_back((char)(i & 1));
      }
      b.set("ops", bops);
      b.set("gaps", g::rbytes((size_t)Tb, 0));
      b.seti("cold", g::coin(1, 3));
      return b;
    }
    return c;
  });
}
#else
#define c08_run nullptr
#endif

static Prop PROPS[] = {
  {"C08", c08_check, c08_run, nullptr},
};

int main(int argc, char **argv) { return vf_main(argc, argv, PROPS, sizeof PROPS / sizeof *PROPS); }
