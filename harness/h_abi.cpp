// C20: binary interface compatibility with the released libcrypt.so.1.
// This client is compiled ONLY against the released <crypt.h> (system include
// path).  It loads the released library and the freshly built shared library
// side by side and drives both through every (symbol, version) binding the
// released library exports.
#include <crypt.h>  // the RELEASED header
#include <dlfcn.h>

#include <cstddef>

#include "main.hpp"
#include "methods.hpp"
#ifndef VF_NO_RC
#include "gen.hpp"
#endif

using namespace vf;

struct vf_layout_entry {
  const char *name;
  long value;
};
extern "C" const vf_layout_entry vf_fresh_layout[];  // abi_layout.c, compiled against the fresh header

static const char *RELEASED_PATH() {
  const char *p = getenv("VERIF_R2");
  return p ? p : "/usr/lib/x86_64-linux-gnu/libcrypt.so.1";
}

struct Binding {
  std::string sym, ver;
  bool is_default;
};
static std::vector<Binding> read_bindings(const std::string &path) {
  std::vector<Binding> v;
  std::string cmd = "readelf --dyn-syms -W '" + path + "' 2>/dev/null";
  FILE *f = popen(cmd.c_str(), "r");
  if (!f) return v;
  char line[1024];
  while (fgets(line, sizeof line, f)) {
    char type[32], bind[32], vis_[32], ndx[32], name[512];
    unsigned long num, val, size;
    if (sscanf(line, " %lu: %lx %lu %31s %31s %31s %31s %511s", &num, &val, &size, type, bind, vis_, ndx, name) != 8) continue;
    if (strcmp(type, "FUNC") || !strcmp(ndx, "UND")) continue;
    std::string n = name;
    size_t at = n.find('@');
    if (at == std::string::npos) continue;
    Binding b;
    b.sym = n.substr(0, at);
    b.is_default = n.compare(at, 2, "@@") == 0;
    b.ver = n.substr(at + (b.is_default ? 2 : 1));
    v.push_back(b);
  }
  pclose(f);
  return v;
}

static const char *const ABI_GOLDEN[] = {
#include "abi_golden.inc"
};
static std::vector<Binding> golden_bindings() {
  std::vector<Binding> v;
  for (const char *g : ABI_GOLDEN) {
    std::string n = g;
    size_t at = n.find('@');
    Binding b;
    b.sym = n.substr(0, at);
    b.is_default = n.compare(at, 2, "@@") == 0;
    b.ver = n.substr(at + (b.is_default ? 2 : 1));
    v.push_back(b);
  }
  return v;
}

struct TwoLibs {
  void *rel = nullptr, *fresh = nullptr;
  std::vector<Binding> rb, fb;
  std::vector<Binding> all;  // released bindings plus those only the pinned release's default configuration exports
  static TwoLibs &get() {
    static TwoLibs t;
    static bool init = false;
    if (!init) {
      init = true;
      t.rel = dlopen(RELEASED_PATH(), RTLD_NOW | RTLD_LOCAL);
      const char *p = getenv("VF_SHARED_LIB");
      if (p) t.fresh = dlopen(p, RTLD_NOW | RTLD_LOCAL);
      t.rb = read_bindings(RELEASED_PATH());
      if (p) t.fb = read_bindings(p);
      t.all = t.rb;
      for (const Binding &g : golden_bindings()) {
        bool have = false;
        for (const Binding &b : t.rb)
          if (b.sym == g.sym && b.ver == g.ver) have = true;
        if (!have) t.all.push_back(g);
      }
    }
    return t;
  }
};

// ---- part A: finite facts ---------------------------------------------------------------
static long released_value(const char *name, bool &known) {
  known = true;
  struct E { const char *n; long v; };
  static const E T[] = {
    {"sizeof(struct crypt_data)", (long)sizeof(struct crypt_data)},
    {"offsetof(output)", (long)offsetof(struct crypt_data, output)},
    {"offsetof(setting)", (long)offsetof(struct crypt_data, setting)},
    {"offsetof(input)", (long)offsetof(struct crypt_data, input)},
    {"offsetof(reserved)", (long)offsetof(struct crypt_data, reserved)},
    {"offsetof(initialized)", (long)offsetof(struct crypt_data, initialized)},
    {"offsetof(internal)", (long)offsetof(struct crypt_data, internal)},
    {"sizeof(output)", (long)sizeof(((struct crypt_data *)0)->output)},
    {"sizeof(setting)", (long)sizeof(((struct crypt_data *)0)->setting)},
    {"sizeof(input)", (long)sizeof(((struct crypt_data *)0)->input)},
    {"sizeof(reserved)", (long)sizeof(((struct crypt_data *)0)->reserved)},
    {"sizeof(initialized)", (long)sizeof(((struct crypt_data *)0)->initialized)},
    {"sizeof(internal)", (long)sizeof(((struct crypt_data *)0)->internal)},
    {"CRYPT_OUTPUT_SIZE", CRYPT_OUTPUT_SIZE},
    {"CRYPT_MAX_PASSPHRASE_SIZE", CRYPT_MAX_PASSPHRASE_SIZE},
    {"CRYPT_GENSALT_OUTPUT_SIZE", CRYPT_GENSALT_OUTPUT_SIZE},
    {"CRYPT_DATA_RESERVED_SIZE", CRYPT_DATA_RESERVED_SIZE},
    {"CRYPT_DATA_INTERNAL_SIZE", CRYPT_DATA_INTERNAL_SIZE},
    {"CRYPT_SALT_OK", CRYPT_SALT_OK},
    {"CRYPT_SALT_INVALID", CRYPT_SALT_INVALID},
    {"CRYPT_SALT_METHOD_DISABLED", CRYPT_SALT_METHOD_DISABLED},
    {"CRYPT_SALT_METHOD_LEGACY", CRYPT_SALT_METHOD_LEGACY},
    {"CRYPT_SALT_TOO_CHEAP", CRYPT_SALT_TOO_CHEAP},
    {"CRYPT_GENSALT_IMPLEMENTS_DEFAULT_PREFIX", CRYPT_GENSALT_IMPLEMENTS_DEFAULT_PREFIX},
    {"CRYPT_GENSALT_IMPLEMENTS_AUTO_ENTROPY", CRYPT_GENSALT_IMPLEMENTS_AUTO_ENTROPY},
  };
  for (auto &e : T)
    if (!strcmp(e.n, name)) return e.v;
  known = false;
  return 0;
}
// constants named in the statement
static const struct { const char *n; long v; } STATEMENT[] = {
  {"sizeof(struct crypt_data)", 32768}, {"offsetof(output)", 0}, {"offsetof(setting)", 384}, {"offsetof(input)", 768}, {"offsetof(reserved)", 1280},
  {"offsetof(initialized)", 2047}, {"offsetof(internal)", 2048}, {"CRYPT_OUTPUT_SIZE", 384}, {"CRYPT_MAX_PASSPHRASE_SIZE", 512}, {"CRYPT_GENSALT_OUTPUT_SIZE", 192},
  {"CRYPT_DATA_RESERVED_SIZE", 767}, {"CRYPT_DATA_INTERNAL_SIZE", 30720}, {"CRYPT_SALT_OK", 0}, {"CRYPT_SALT_INVALID", 1}, {"CRYPT_SALT_METHOD_DISABLED", 2},
  {"CRYPT_SALT_METHOD_LEGACY", 3}, {"CRYPT_SALT_TOO_CHEAP", 4},
};

static Verdict part_a(Ctx &ctx) {
  TwoLibs &L = TwoLibs::get();
  if (!L.rel) return "C20 internal: released libcrypt.so.1 could not be loaded";
  if (!L.fresh) return "C20 the freshly built shared library cannot be loaded: " + std::string(dlerror() ? dlerror() : "?");
  int n = 0;
  for (const vf_layout_entry *e = vf_fresh_layout; e->name; e++, n++) {
    bool known;
    long rv = released_value(e->name, known);
    ctx.st.evaluations++;
    if (!known) return std::string("C20 internal: unknown layout entry ") + e->name;
    if (rv != e->value) return std::string("C20 ") + e->name + " is " + std::to_string(e->value) + " in the fresh <crypt.h> but " + std::to_string(rv) + " in the released header";
    for (auto &s : STATEMENT)
      if (!strcmp(s.n, e->name) && s.v != e->value) return std::string("C20 ") + e->name + " is " + std::to_string(e->value) + ", the released interface fixes it at " + std::to_string(s.v);
    ctx.st.distinct_by_construction++;
    ctx.st.nontrivial++;
  }
  ctx.st.cls("c20-a/layout-facts", (uint64_t)n);
  if (L.rb.size() < 15) return "C20 internal: could not read the released library's symbol table";
  for (const Binding &b : L.rb) {
    ctx.st.evaluations++;
    void *p = dlvsym(L.fresh, b.sym.c_str(), b.ver.c_str());
    if (!p) return "C20 the released library exports " + b.sym + "@" + b.ver + " but the fresh library does not";
    bool found = false, def_same = false;
    for (const Binding &f : L.fb)
      if (f.sym == b.sym && f.ver == b.ver) {
        found = true;
        def_same = f.is_default == b.is_default;
      }
    if (!found) return "C20 " + b.sym + "@" + b.ver + " is missing from the fresh library's dynamic symbol table";
    if (!def_same) return "C20 " + b.sym + "@" + b.ver + (b.is_default ? " is the default version in the released library but not in the fresh one" : " became the default version");
    ctx.st.distinct_by_construction++;
    ctx.st.nontrivial++;
    ctx.st.cls("c20-a/binding/" + b.sym + "@" + b.ver);
  }
  // the pinned release's own default configuration (--enable-obsolete-api=yes) exports more than the Debian binary:
  // those (symbol, version) pairs are part of the released interface too (Openwall/SUSE-built programs bind to them)
  for (const Binding &g : golden_bindings()) {
    ctx.st.evaluations++;
    bool found = false, def_same = false;
    for (const Binding &f : L.fb)
      if (f.sym == g.sym && f.ver == g.ver) {
        found = true;
        def_same = f.is_default == g.is_default;
      }
    if (!found || !dlvsym(L.fresh, g.sym.c_str(), g.ver.c_str())) return "C20 release 4.4.39 exports " + g.sym + "@" + g.ver + " in its default configuration but the fresh library does not";
    if (!def_same) return "C20 " + g.sym + "@" + g.ver + (g.is_default ? " is the default version in the release but not in the fresh library" : " became the default version");
    ctx.st.distinct_by_construction++;
    ctx.st.nontrivial++;
    ctx.st.cls("c20-a/golden/" + g.sym + "@" + g.ver);
  }
  return "";
}

// ---- part B: generated programs ------------------------------------------------------------
typedef char *(*fn_crypt)(const char *, const char *);
typedef char *(*fn_crypt_r)(const char *, const char *, void *);
typedef char *(*fn_crypt_rn)(const char *, const char *, void *, int);
typedef char *(*fn_crypt_ra)(const char *, const char *, void **, int *);
typedef char *(*fn_gensalt)(const char *, unsigned long, const char *, int);
typedef char *(*fn_gensalt_rn)(const char *, unsigned long, const char *, int, char *, int);
typedef int (*fn_checksalt)(const char *);
typedef const char *(*fn_pref)(void);
typedef void (*fn_setkey)(const char *);
typedef void (*fn_encrypt)(char *, int);
typedef void (*fn_setkey_r)(const char *, void *);
typedef void (*fn_encrypt_r)(char *, int, void *);

struct Side {
  void *h;
  void *obj;      // old-layout data object
  void *ra = nullptr;
  int ras = 0;
  void *sym(const Binding &b) { return dlvsym(h, b.sym.c_str(), b.ver.c_str()); }
};
struct OpRes {
  bool null_ret = true;
  Bytes s;
  int err = 0;
  Bytes field;
};

// signature class of a symbol name
static int sigclass(const std::string &s) {
  if (s == "crypt" || s == "xcrypt" || s == "fcrypt") return 0;
  if (s == "crypt_r" || s == "xcrypt_r") return 1;
  if (s == "crypt_rn") return 2;
  if (s == "crypt_ra") return 3;
  if (s == "crypt_gensalt" || s == "xcrypt_gensalt") return 4;
  if (s == "crypt_gensalt_rn" || s == "crypt_gensalt_r" || s == "xcrypt_gensalt_r") return 5;
  if (s == "crypt_gensalt_ra") return 6;
  if (s == "crypt_checksalt") return 7;
  if (s == "crypt_preferred_method") return 8;
  if (s == "setkey") return 9;
  if (s == "encrypt") return 10;
  if (s == "setkey_r") return 11;
  if (s == "encrypt_r") return 12;
  return -1;
}

static OpRes run_op(Side &sd, const Binding &b, const Bytes &P, const Bytes &S, unsigned long count, const Bytes &rb, unsigned char arg) {
  OpRes r;
  void *f = sd.sym(b);
  if (!f) { r.err = -999; return r; }
  struct crypt_data *cd = (struct crypt_data *)sd.obj;
  errno = 0;
  switch (sigclass(b.sym)) {
    case 0: { char *p = ((fn_crypt)f)(P.c_str(), S.c_str()); r.null_ret = !p; if (p) r.s = p; break; }
    case 1: { char *p = ((fn_crypt_r)f)(P.c_str(), S.c_str(), cd); r.null_ret = !p; if (p) r.s = p; r.field.assign(cd->output, strnlen(cd->output, sizeof cd->output)); break; }
    case 2: { char *p = ((fn_crypt_rn)f)(P.c_str(), S.c_str(), cd, (int)sizeof *cd); r.null_ret = !p; if (p) r.s = p; r.field.assign(cd->output, strnlen(cd->output, sizeof cd->output)); break; }
    case 3: { char *p = ((fn_crypt_ra)f)(P.c_str(), S.c_str(), &sd.ra, &sd.ras); r.null_ret = !p; if (p) r.s = p; break; }
    case 4: { char *p = ((fn_gensalt)f)(S.c_str(), count, rb.data(), (int)rb.size()); r.null_ret = !p; if (p) r.s = p; break; }
    case 5: {
      char out[CRYPT_GENSALT_OUTPUT_SIZE];
      memset(out, 0x11, sizeof out);
      char *p = ((fn_gensalt_rn)f)(S.c_str(), count, rb.data(), (int)rb.size(), out, (int)sizeof out);
      r.null_ret = !p;
      if (p) r.s = p;
      r.field.assign(out, strnlen(out, sizeof out));
      break;
    }
    case 6: { char *p = ((fn_gensalt)f)(S.c_str(), count, rb.data(), (int)rb.size()); r.null_ret = !p; if (p) { r.s = p; free(p); } break; }
    case 7: r.null_ret = false; r.err = 0; r.s = std::to_string(((fn_checksalt)f)(S.c_str())); errno = 0; break;
    case 8: { const char *p = ((fn_pref)f)(); r.null_ret = !p; if (p) r.s = p; break; }
    case 9: case 11: {
      char vec[64];
      // only the low bit of each byte counts; old binaries pass '0'/'1' characters or other junk in the upper bits
      for (int i = 0; i < 64; i++) {
        unsigned char src = P.empty() ? 0 : (unsigned char)P[(size_t)i % P.size()];
        unsigned char junk = (arg & 1) ? (unsigned char)((src * 37 + i * 11) & 0xfe) : (arg & 2) ? 0x30 : 0;
        vec[i] = (char)(junk | ((src >> (i % 8)) & 1));
      }
      // programs built against glibc never had to clear the object before setkey_r: sometimes it holds garbage
      if (sigclass(b.sym) == 11 && (arg & 12) == 12) memset(cd, (arg & 16) ? 0xff : 0xa5, sizeof *cd);
      if (sigclass(b.sym) == 9) ((fn_setkey)f)(vec); else ((fn_setkey_r)f)(vec, cd);
      r.null_ret = false;
      break;
    }
    default: {
      char vec[64];
      for (int i = 0; i < 64; i++) vec[i] = (char)((((arg >> 4) & 1) ? ((arg * 29 + i * 7) & 0xfe) : ((arg >> 5) & 1) ? 0x30 : 0) | ((arg >> (i % 8)) & 1));
      static const int EDFLAG[] = {0, 1, 0, 1, 2, -1, 256, (int)0x80000000u};  // any non-zero value decrypts
      int edflag = EDFLAG[(arg >> 1) & 7];
      if (sigclass(b.sym) == 10) ((fn_encrypt)f)(vec, edflag); else ((fn_encrypt_r)f)(vec, edflag, cd);
      r.null_ret = false;
      r.s.assign(vec, 64);
      break;
    }
  }
  if (sigclass(b.sym) != 7) r.err = errno;
  return r;
}

// requests on which this task's fixes intentionally differ from 4.4.33 are excluded by construction
static bool excluded_region(int sc, const Bytes &S, unsigned long count, const Bytes &rb) {
  Method m = sc >= 4 && sc <= 6 ? classify_prefix(S) : classify_tag(S);
  if (sc <= 3 && m == M_SHA1) {
    size_t e = S.find('$', 6);
    if (e != Bytes::npos) {
      size_t z = e + 1;
      while (z < S.size() && is_a64((unsigned char)S[z])) z++;
      if (z - (e + 1) > 64) return true;  // F1: over-long sha1crypt salts now fail with ERANGE
    }
  }
  if (sc >= 4 && sc <= 6) {
    if ((m == M_MD5 || m == M_SHA256 || m == M_SHA512) && rb.size() < 16) return true;  // F3
    if (m == M_SUNMD5 && count > 0xffffffffUL - 70000) return true;                      // F4
  }
  return false;
}

static Verdict c20_check(const KV &c, Ctx &ctx) {
  if (c.has("part_a")) return part_a(ctx);
  TwoLibs &L = TwoLibs::get();
  if (!L.rel || !L.fresh || L.rb.empty()) return "C20 internal: libraries not loaded";
  int nreq = (int)c.geti("nreq");
  if (nreq < 1) return "";
  if (nreq > 8) nreq = 8;
  std::vector<Bytes> P((size_t)nreq), S((size_t)nreq);
  for (int i = 0; i < nreq; i++) {
    P[(size_t)i] = c.get("p" + std::to_string(i));
    S[(size_t)i] = c.get("s" + std::to_string(i));
    P[(size_t)i] = P[(size_t)i].substr(0, P[(size_t)i].find('\0'));
    S[(size_t)i] = S[(size_t)i].substr(0, S[(size_t)i].find('\0'));
    Cost k = decode_cost(S[(size_t)i], P[(size_t)i].size());
    k.units *= 20;
    if (passwd_safe(S[(size_t)i]) && P[(size_t)i].size() < 512 && !affordable(k, ctx.tier)) {
      ctx.st.skipped_cost++;
      return "";
    }
  }
  Side rel{L.rel, calloc(1, sizeof(struct crypt_data))}, fr{L.fresh, calloc(1, sizeof(struct crypt_data))};
  const Bytes &ops = c.get("ops");
  Bytes rb = c.get("rbytes");
  if (rb.size() < 16) rb.resize(16, '\x21');
  Verdict v;
  std::map<std::string, std::set<std::string>> versions_used;
  bool compat_only = false;
  bool skey = false, skey_r = false;
  int nops = 0;
  for (size_t i = 0; i + 4 <= ops.size() && v.empty(); i += 4) {
    const Binding &b = L.all[(unsigned char)ops[i] % L.all.size()];
    // a binding the Debian binary lacks is compared with the released default version of the same symbol
    Binding brel = b;
    if (!dlvsym(L.rel, b.sym.c_str(), b.ver.c_str()))
      for (const Binding &d : L.rb)
        if (d.sym == b.sym && d.is_default) brel = d;
    int ri = (unsigned char)ops[i + 1] % nreq;
    unsigned char arg = (unsigned char)ops[i + 2];
    unsigned long count = (unsigned char)ops[i + 3] < 200 ? 0 : (unsigned long)((unsigned char)ops[i + 3] - 200);
    int sc = sigclass(b.sym);
    if (sc < 0) continue;
    if ((sc == 10 && !skey) || (sc == 12 && !skey_r)) continue;  // encrypt before any setkey: the key is unspecified
    Bytes Sx = S[(size_t)ri];
    if (sc >= 4 && sc <= 6) Sx = Sx.substr(0, Sx.size() < 6 ? Sx.size() : 6);  // prefix argument
    if (excluded_region(sc, Sx, count, rb)) {
      ctx.st.excluded_known++;
      continue;
    }
    OpRes a = run_op(rel, brel, P[(size_t)ri], Sx, count, rb, arg);
    OpRes f = run_op(fr, b, P[(size_t)ri], Sx, count, rb, arg);
    ctx.st.executed += 2;
    nops++;
    if (sc == 9) skey = true;
    if (sc == 11) skey_r = true;
    if (sc == 1 || sc == 2) skey_r = false;  // crypt on the object erases the key schedule stored there
    std::string call = b.sym + "@" + b.ver + "(\"" + vis(P[(size_t)ri], 20) + "\", \"" + vis(Sx, 80) + "\"" + (sc >= 4 && sc <= 6 ? ", count=" + std::to_string(count) : "") + ")";
    if (f.err == -999) { v = "C20 binding " + b.sym + "@" + b.ver + " does not resolve in the fresh library"; break; }
    bool afail = a.null_ret || (!a.s.empty() && a.s[0] == '*' && sc <= 3), ffail = f.null_ret || (!f.s.empty() && f.s[0] == '*' && sc <= 3);
    if (afail != ffail || a.null_ret != f.null_ret || a.s != f.s) { v = "C20 " + call + " returns " + (f.null_ret ? std::string("NULL") : "\"" + vis(f.s, 120) + "\"") + " from the fresh library but " + (a.null_ret ? std::string("NULL") : "\"" + vis(a.s, 120) + "\"") + " from the released one"; break; }
    if (afail && a.err != f.err) { v = "C20 " + call + " fails with errno " + std::to_string(f.err) + " in the fresh library but " + std::to_string(a.err) + " in the released one"; break; }
    if (a.field != f.field) { v = "C20 " + call + " leaves \"" + vis(f.field, 100) + "\" in the output field, the released library leaves \"" + vis(a.field, 100) + "\""; break; }
    // inside the fresh library every compat binding behaves as the modern (default) one
    for (const Binding &d : L.rb) {
      if (d.sym == b.sym && d.ver == b.ver) continue;
      bool same_family = sigclass(d.sym) == sc && d.is_default && (sc <= 6);
      if (!same_family) continue;
      Side tmp{L.fresh, fr.obj};
      OpRes m = run_op(tmp, d, P[(size_t)ri], Sx, count, rb, arg);
      free(tmp.ra);
      ctx.st.executed++;
      if (m.null_ret != f.null_ret || m.s != f.s) { v = "C20 in the fresh library " + b.sym + "@" + b.ver + " and " + d.sym + "@@" + d.ver + " disagree on " + call; break; }
    }
    versions_used[b.sym].insert(b.ver);
    if (!b.is_default) compat_only = true;
    ctx.st.cls("c20-b/" + b.sym + "@" + b.ver);
  }
  free(rel.obj); free(fr.obj); free(rel.ra); free(fr.ra);
  if (!v.empty()) return v;
  bool multi = false;
  for (auto &kv : versions_used)
    if (kv.second.size() >= 2) multi = true;
  if (nops && (multi || compat_only)) {
    if (ctx.st.nontriv(fnv(c.serialize())) && ctx.st.samples.size() < ctx.st.sample_cap) {
      std::string d;
      for (auto &kv : versions_used) d += kv.first + "{" + std::to_string(kv.second.size()) + "} ";
      ctx.st.sample("program of " + std::to_string(nops) + " calls over: " + d);
    }
    ctx.st.cls("c20-b/program");
  }
  return "";
}

static int c20_grid(Ctx &ctx) {
  if (ctx.shard != 0) return 0;
  KV c;
  c.seti("part_a", 1);
  ctx.current(c);
  Verdict v = part_a(ctx);
  if (!v.empty()) {
    ctx.fail(c, v);
    return 1;
  }
  ctx.st.sample("part A: layout facts of struct crypt_data and the public constants from the fresh header vs the released header; every released (symbol, version) resolved with dlvsym in the fresh library");
  return 0;
}

#ifndef VF_NO_RC
static int c20_run(Ctx &ctx) {
  return run_rc_generic(ctx, "C20", c20_check, [&]() {
    KV c;
    int nreq = (int)g::pick(2, 6);
    c.seti("nreq", nreq);
    g::SOpts o;
    o.sha1_salt_max = 64;
    for (int i = 0; i < nreq; i++) {
      int k = g::wpick({8, 1, 1});
      Bytes s = k == 0 ? g::valid_setting(g::any_method(), o).s : k == 1 ? g::mutate(g::valid_setting(g::any_method(), o).s, 1, true) : Bytes("*0");
      c.set("s" + std::to_string(i), s);
      c.set("p" + std::to_string(i), g::phrase(80));
    }
    size_t nops = (size_t)g::pick(5, 40);
    Bytes ops;
    for (size_t i = 0; i < nops; i++) {
      ops.push_back((char)g::pick(0, 255));
      ops.push_back((char)g::pick(0, 7));
      ops.push_back((char)g::pick(0, 255));
      ops.push_back((char)g::pick(0, 255));
    }
    c.set("ops", ops);
    c.set("rbytes", g::rbytes((size_t)g::pick(16, 64)));
    return c;
  });
}
#else
#define c20_run nullptr
#endif

static Prop PROPS[] = {
  {"C20", c20_check, c20_run, c20_grid},
};

int main(int argc, char **argv) { return vf_main(argc, argv, PROPS, sizeof PROPS / sizeof *PROPS); }
