/* C19 probe: prints a transcript of the library's behaviour on a fixed corpus.
   Compiled against one configuration's generated crypt.h and static library. */
#include <crypt.h>
#include <errno.h>
#include <stdio.h>
#include <stdlib.h>
#include <string.h>

struct hcase {
  const char *id;      /* method (hashes.conf name) or des-ss / des-ls / des-ll */
  const char *phrase;
  const char *setting;
};

#define LONGP "a phrase longer than eight"
static const struct hcase H[] = {
  {"yescrypt", "pw", "$y$j75$n34PoBLMgF5"},
  {"yescrypt", LONGP, "$y$j75$n34PoBLMgF5$"},
  {"yescrypt", "pw", "$y$j75$n34PoBLMgF5$0123456789012345678901234567890123456789012"},
  {"yescrypt", "x", "$y$/6/$C3qEg/"},
  {"yescrypt", "classic flavor", "$y$.6/$C3qEg/"},
  {"yescrypt", "with p and t", "$y$j6/..$C3qEg/$"},
  {"yescrypt", LONGP, "$y$j9T$n34PoBLMgF5"},
  {"gost_yescrypt", "pw", "$gy$j75$n34PoBLMgF5"},
  {"gost_yescrypt", LONGP, "$gy$j75$n34PoBLMgF5$"},
  {"gost_yescrypt", "x", "$gy$/6/$C3qEg/"},
  {"gost_yescrypt", "classic flavor", "$gy$.6/$C3qEg/"},
  {"scrypt", "pw", "$7$40..../....salt"},
  {"scrypt", LONGP, "$7$40..../....salt$"},
  {"scrypt", "x", "$7$5/..../....x$y"},
  {"scrypt", "p=2", "$7$4/....0....salt$"},
  {"bcrypt", "pw", "$2b$04$abcdefghijklmnopqrstuu"},
  {"bcrypt", LONGP, "$2b$04$UBVLHeMpJ/QQCv3XqJx8zO"},
  {"bcrypt", "\xff\xa3" "345", "$2b$04$abcdefghijklmnopqrstuu"},
  {"bcrypt_a", "pw", "$2a$04$abcdefghijklmnopqrstuu"},
  {"bcrypt_a", "\xff\xa3" "345", "$2a$04$abcdefghijklmnopqrstuu"},
  {"bcrypt_x", "pw", "$2x$04$abcdefghijklmnopqrstuu"},
  {"bcrypt_x", "\xff\xa3" "345", "$2x$04$abcdefghijklmnopqrstuu"},
  {"bcrypt_y", "pw", "$2y$04$abcdefghijklmnopqrstuu"},
  {"bcrypt_y", LONGP, "$2y$04$UBVLHeMpJ/QQCv3XqJx8zO"},
  {"sha512crypt", "pw", "$6$rounds=1000$saltstring"},
  {"sha512crypt", LONGP, "$6$saltstringsaltstring$"},
  {"sha512crypt", "", "$6$$"},
  {"sha256crypt", "pw", "$5$rounds=1000$saltstring"},
  {"sha256crypt", LONGP, "$5$saltstringsaltstring$"},
  {"sha256crypt", "", "$5$$"},
  {"sha1crypt", "pw", "$sha1$20$GNdOBWfH"},
  {"sha1crypt", LONGP, "$sha1$1$a$"},
  {"sunmd5", "pw", "$md5$BPm.fm03"},
  {"sunmd5", LONGP, "$md5,rounds=5$saltsalt$$"},
  {"md5crypt", "pw", "$1$saltsalt"},
  {"md5crypt", LONGP, "$1$abcdefghij$"},
  {"md5crypt", "", "$1$$"},
  {"nt", "pw", "$3$"},
  {"nt", LONGP, "$3$$8846f7eaee8fb117ad06bdd830b7586c"},
  {"bsdicrypt", "pw", "_J9..salt"},
  {"bsdicrypt", LONGP, "_/...abcd"},
  {"des-ss", "pw", "ab"},
  {"des-ss", "eightchr", "Zz/.........."},
  {"des-ss", "", "CC"},
  {"des-ss", "short", "ab............"},
  {"des-ls", LONGP, "ab"},
  {"des-ls", "ninechars", "Zz/.........."},
  {"des-ls", "a very long phrase that spans more than three segments of eight", "CC"},
  {"des-ll", LONGP, "ab............"},
  {"des-ll", "ninechars", "Zz/..........hashhashhashhash"},
  {"des-ll", "a very long phrase that spans more than three segments of eight", "CCabcdefghijklmnopqrstuvwxyz"},
};

static const char *const TAGS[][2] = {
  {"yescrypt", "$y$"}, {"gost_yescrypt", "$gy$"}, {"scrypt", "$7$"}, {"bcrypt", "$2b$"}, {"bcrypt_a", "$2a$"}, {"bcrypt_x", "$2x$"}, {"bcrypt_y", "$2y$"},
  {"sha512crypt", "$6$"}, {"sha256crypt", "$5$"}, {"sha1crypt", "$sha1"}, {"sunmd5", "$md5"}, {"md5crypt", "$1$"}, {"nt", "$3$"}, {"bsdicrypt", "_"}, {"des", ""},
};

int main(void) {
  struct crypt_data *cd = calloc(1, sizeof *cd);
  char rb[64], out[CRYPT_GENSALT_OUTPUT_SIZE];
  size_t i;
  for (i = 0; i < 64; i++) rb[i] = (char)(i * 37 + 11);
  for (i = 0; i < sizeof H / sizeof *H; i++) {
    memset(cd, 0, sizeof *cd);
    errno = 0;
    char *r = crypt_rn(H[i].phrase, H[i].setting, cd, (int)sizeof *cd);
    if (r) printf("H:%s:%zu %s\n", H[i].id, i, r);
    else printf("H:%s:%zu FAIL:%d\n", H[i].id, i, errno);
    /* the other entry points must agree */
    memset(cd, 0, sizeof *cd);
    char *r2 = crypt_r(H[i].phrase, H[i].setting, cd);
    int f2 = !r2 || r2[0] == '*';
    if ((r == NULL) != f2 || (r && strcmp(r2, cd->output) != 0)) printf("X:%s:%zu crypt_r disagrees with crypt_rn\n", H[i].id, i);
  }
  for (i = 0; i < sizeof TAGS / sizeof *TAGS; i++) {
    errno = 0;
    char *r = crypt_gensalt_rn(TAGS[i][1], 0, rb, 64, out, sizeof out);
    if (r) printf("G:%s %s\n", TAGS[i][0], r);
    else printf("G:%s FAIL:%d\n", TAGS[i][0], errno);
    /* a full setting of the method as prefix / as checksalt argument */
    char sample[64];
    snprintf(sample, sizeof sample, "%s%s", TAGS[i][1], TAGS[i][1][0] ? "xxxxxxxxxxxxxxxxxxxxxxxxxxxx" : "ab");
    printf("C:%s %d\n", TAGS[i][0], crypt_checksalt(sample));
  }
  errno = 0;
  {
    char *r = crypt_gensalt_rn(NULL, 0, rb, 64, out, sizeof out);
    if (r) printf("G:NULL %s\n", r);
    else printf("G:NULL FAIL:%d\n", errno);
    char *s = crypt_gensalt(NULL, 0, rb, 64);
    if ((r == NULL) != (s == NULL) || (r && strcmp(r, s))) printf("X:NULL crypt_gensalt disagrees with crypt_gensalt_rn\n");
  }
  {
    const char *pm = crypt_preferred_method();
    printf("P %s\n", pm ? pm : "NULL");
  }
  printf("C:unknown %d\n", crypt_checksalt("$zz$unknown"));
  printf("H:unknown FAIL-probe %s\n", crypt_rn("pw", "$zz$unknown", cd, (int)sizeof *cd) ? "accepted" : "rejected");
#ifdef CRYPT_GENSALT_IMPLEMENTS_DEFAULT_PREFIX
  printf("M:CRYPT_GENSALT_IMPLEMENTS_DEFAULT_PREFIX %d\n", CRYPT_GENSALT_IMPLEMENTS_DEFAULT_PREFIX);
#else
  printf("M:CRYPT_GENSALT_IMPLEMENTS_DEFAULT_PREFIX undefined\n");
#endif
#ifdef CRYPT_GENSALT_IMPLEMENTS_AUTO_ENTROPY
  printf("M:CRYPT_GENSALT_IMPLEMENTS_AUTO_ENTROPY %d\n", CRYPT_GENSALT_IMPLEMENTS_AUTO_ENTROPY);
#endif
  printf("M:CRYPT_OUTPUT_SIZE %d\n", CRYPT_OUTPUT_SIZE);
  printf("M:sizeof_crypt_data %zu\n", sizeof(struct crypt_data));
  return 0;
}
