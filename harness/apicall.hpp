// One API call with full instrumentation, shared by C04 (memory safety and write
// confinement), C05 (fail-closed) and the libFuzzer target.
#pragma once
#include "api.hpp"
#include "methods.hpp"

#if defined(__has_feature)
#if __has_feature(address_sanitizer)
#define VF_ASAN 1
#endif
#endif
#if defined(__SANITIZE_ADDRESS__)
#define VF_ASAN 1
#endif
#ifdef VF_ASAN
#include <sanitizer/asan_interface.h>
#define VF_POISON(p, n) ASAN_POISON_MEMORY_REGION(p, n)
#define VF_UNPOISON(p, n) ASAN_UNPOISON_MEMORY_REGION(p, n)
#else
#define VF_POISON(p, n) ((void)0)
#define VF_UNPOISON(p, n) ((void)0)
#endif

#ifndef VF_FAILURE_TOKENS
#define VF_FAILURE_TOKENS 1
#endif

namespace vf {

enum { E_CRYPT = 0, E_CRYPT_R, E_CRYPT_RN, E_CRYPT_RA, E_GENSALT, E_GENSALT_RN, E_GENSALT_RA, E_CHECKSALT, E_COUNT };
static const char *const ENTRY_NAME[] = {"crypt", "crypt_r", "crypt_rn", "crypt_ra", "crypt_gensalt", "crypt_gensalt_rn", "crypt_gensalt_ra", "crypt_checksalt"};

struct ApiCase {
  int entry = E_CRYPT_RN;
  bool phrase_null = false, setting_null = false;
  Bytes phrase, setting;           // for gensalt: setting = prefix
  long long size = 32768;          // crypt_rn size / crypt_ra recorded size
  int ra_state = 0;                // crypt_ra: 0 (NULL,0); 1 valid block; 2 undersized malloc block; 3 negative recorded size
  unsigned long count = 0;
  long long nrbytes = 0;
  bool rbytes_null = false;
  Bytes rbytes;
  long long output_size = 192;
  int align = 0;                   // 0..15
  int fill = 0;                    // 0: 0x00, 1: 0xA5, 2: 0xFF, 3: pseudo-random
  bool own_fields = false;         // phrase/setting live in data->input / data->setting
  int prior = 0;                   // 0 fresh; 1 previous success (p0,s0); 2 previous failure
  Bytes p0, s0;
};

inline ApiCase api_from_kv(const KV &c) {
  ApiCase a;
  a.entry = (int)c.geti("entry", E_CRYPT_RN);
  if (a.entry < 0 || a.entry >= E_COUNT) a.entry = E_CRYPT_RN;
  a.phrase_null = c.geti("phrase_null") != 0;
  a.setting_null = c.geti("setting_null") != 0;
  a.phrase = c.get("phrase");
  a.setting = c.get("setting");
  // strings are C strings: cut at the first NUL
  a.phrase = a.phrase.substr(0, a.phrase.find('\0'));
  a.setting = a.setting.substr(0, a.setting.find('\0'));
  a.size = c.geti("size", 32768);
  if (a.size > 2147483647LL) a.size = 2147483647LL;
  if (a.size < -2147483647LL) a.size = -2147483647LL;
  a.ra_state = (int)c.geti("ra_state", 0) & 3;
  a.count = (unsigned long)c.getu("count", 0);
  a.nrbytes = c.geti("nrbytes", 0);
  a.rbytes_null = c.geti("rbytes_null") != 0;
  a.rbytes = c.get("rbytes");
  a.output_size = c.geti("output_size", 192);
  a.align = (int)c.geti("align", 0) & 15;
  a.fill = (int)c.geti("fill", 0) & 3;
  a.own_fields = c.geti("own_fields") != 0;
  a.prior = (int)c.geti("prior", 0) % 3;
  a.p0 = c.get("p0");
  a.s0 = c.get("s0");
  a.p0 = a.p0.substr(0, a.p0.find('\0'));
  a.s0 = a.s0.substr(0, a.s0.find('\0'));
  return a;
}
inline KV api_to_kv(const ApiCase &a) {
  KV c;
  c.seti("entry", a.entry);
  if (a.phrase_null) c.seti("phrase_null", 1);
  if (a.setting_null) c.seti("setting_null", 1);
  c.set("phrase", a.phrase);
  c.set("setting", a.setting);
  if (a.entry == E_CRYPT_RN || a.entry == E_CRYPT_RA) c.seti("size", a.size);
  if (a.entry == E_CRYPT_RA) c.seti("ra_state", a.ra_state);
  if (a.entry >= E_GENSALT && a.entry <= E_GENSALT_RA) {
    c.setu("count", a.count);
    c.seti("nrbytes", a.nrbytes);
    if (a.rbytes_null) c.seti("rbytes_null", 1);
    c.set("rbytes", a.rbytes);
    c.seti("output_size", a.output_size);
  }
  c.seti("align", a.align);
  c.seti("fill", a.fill);
  if (a.own_fields) c.seti("own_fields", 1);
  c.seti("prior", a.prior);
  if (a.prior == 1) {
    c.set("p0", a.p0);
    c.set("s0", a.s0);
  }
  return c;
}

struct ApiObs {
  bool crashed = false;
  bool returned_null = false;
  Bytes ret;           // returned string (if non-NULL)
  int err = 0;
  Bytes out_field;     // data->output (or the caller's buffer) as a C string after the call
  bool out_unterminated = false;
  bool ptr_ok = true;  // returned pointer lies inside the permitted area
  bool fields_intact = true;
  bool wiped = false;      // internal+reserved all zero and initialized == 0 after the call
  bool untouched = false;  // internal+reserved+initialized still hold the prefill pattern
  Bytes h0;            // hash held by the object before the call (prior == 1 and it succeeded)
  std::string problem; // harness-detected confinement problem
  int checksalt = -1;
};

// <unistd.h> declares crypt() with a nonnull attribute; the library documents NULL handling, so the
// deliberate NULL-argument calls go through an attribute-free pointer.
typedef char *(*crypt_fn_t)(const char *, const char *);
static inline crypt_fn_t crypt_plain() {
  static crypt_fn_t volatile f = (crypt_fn_t)&crypt;
  return f;
}
static inline unsigned char fill_byte(int fill, size_t i) {
  switch (fill) {
    case 0: return 0x00;
    case 1: return 0xA5;
    case 2: return 0xFF;
    default: { uint64_t k = i; return (unsigned char)(fnv(&k, sizeof k) >> 29); }
  }
}
static inline char *exact_cstr(const Bytes &s) {
  char *p = (char *)malloc(s.size() + 1);
  memcpy(p, s.data(), s.size());
  p[s.size()] = 0;
  return p;
}

// independent must-fail predicate (C05)
static inline bool api_must_fail(const ApiCase &a, std::string &why) {
  if (a.entry > E_CRYPT_RA) return false;
  if (a.phrase_null || a.setting_null) { why = "null-arg"; return true; }
  if (a.phrase.size() >= 512) { why = "phrase>=512"; return true; }
  if (!passwd_safe(a.setting)) { why = "bad-char"; return true; }
  if (classify_tag(a.setting) == M_NONE) { why = "unknown-tag"; return true; }
  if (a.entry == E_CRYPT_RN && (a.size < 0 || (size_t)a.size < sizeof(struct crypt_data))) { why = "size-too-small"; return true; }
  std::string g = method_must_fail(a.setting);
  if (!g.empty()) { why = "malformed-parameters: " + g; return true; }
  return false;
}
// independent "passes argument validation" predicate (C09 L1)
static inline bool api_passes_validation(const ApiCase &a) {
  if (a.entry > E_CRYPT_RA) return true;
  if (a.phrase_null || a.setting_null || a.phrase.size() >= 512 || !passwd_safe(a.setting) || classify_tag(a.setting) == M_NONE) return false;
  if (a.entry == E_CRYPT_RN && (a.size < 0 || (size_t)a.size < sizeof(struct crypt_data))) return false;
  return true;
}

// Execute the call.  `fill` overrides a.fill so that callers can repeat the same
// call over different garbage.
static inline ApiObs api_execute(const ApiCase &a, int fill) {
  ApiObs o;
  const size_t DS = sizeof(struct crypt_data);
  if (a.entry == E_CHECKSALT) {
    char *s = a.setting_null ? nullptr : exact_cstr(a.setting);
    o.checksalt = crypt_checksalt(s);
    free(s);
    return o;
  }
  if (a.entry >= E_GENSALT) {
    // gensalt family
    char *prefix = a.setting_null ? nullptr : exact_cstr(a.setting);
    size_t rbn = a.nrbytes > 0 ? (size_t)a.nrbytes : 0;
    if (rbn > 4096) rbn = 4096;
    char *rb = nullptr;
    if (!a.rbytes_null) {
      rb = (char *)malloc(rbn ? rbn : 1);
      for (size_t i = 0; i < rbn; i++) rb[i] = i < a.rbytes.size() ? a.rbytes[i] : (char)(i * 37 + 11);
    }
    int nrb = (int)(a.nrbytes > 4096 ? 4096 : a.nrbytes < -2147483647LL ? -2147483647LL : a.nrbytes);
    errno = 0;
    if (a.entry == E_GENSALT_RN) {
      long long osz = a.output_size;
      if (osz > (8 << 20)) osz = 8 << 20;
      if (osz < -2147483647LL) osz = -2147483647LL;
      size_t alloc = osz > 0 ? (size_t)osz : 1;
      char *ob = (char *)malloc(alloc);
      memset(ob, 0x7e, alloc);
      char *r = crypt_gensalt_rn(prefix, a.count, rb, nrb, ob, (int)osz);
      o.err = errno;
      if (osz > 0) {
        size_t l = strnlen(ob, alloc);
        o.out_unterminated = l == alloc;
        o.out_field.assign(ob, l);
      } else if (ob[0] != 0x7e)
        o.problem = "crypt_gensalt_rn wrote although output_size <= 0";
      if (r) {
        if (r != ob) o.ptr_ok = false;
        else o.ret.assign(r, strnlen(r, alloc));
      } else
        o.returned_null = true;
      free(ob);
      // exact-fit probing: the same request into heap blocks of exactly strlen(result) + 1, + 0 and + 2 bytes
      // (the sizes at which a size check that is off by one starts to write outside the block)
      if (r && osz > 0 && o.ptr_ok && o.problem.empty()) {
        size_t L = o.ret.size();
        for (size_t sz : {L + 1, L, L + 2}) {
          if (sz == 0 || (long long)sz == osz) continue;
          char *eb = (char *)malloc(sz);
          memset(eb, 0x7e, sz);
          int saved = errno;
          char *er = crypt_gensalt_rn(prefix, a.count, rb, nrb, eb, (int)sz);
          if (er && strnlen(eb, sz) == sz) o.problem = "crypt_gensalt_rn succeeded with output_size=" + std::to_string(sz) + " but left the buffer unterminated";
          if (er && er != eb) o.problem = "crypt_gensalt_rn returned a pointer outside the caller's buffer";
          errno = saved;
          free(eb);
        }
      }
    } else if (a.entry == E_GENSALT) {
      char *r = crypt_gensalt(prefix, a.count, rb, nrb);
      o.err = errno;
      if (r) o.ret.assign(r, strnlen(r, CRYPT_GENSALT_OUTPUT_SIZE));
      else o.returned_null = true;
      if (r && o.ret.size() >= CRYPT_GENSALT_OUTPUT_SIZE) o.out_unterminated = true;
    } else {
      char *r = crypt_gensalt_ra(prefix, a.count, rb, nrb);
      o.err = errno;
      if (r) {
        o.ret.assign(r, strnlen(r, CRYPT_GENSALT_OUTPUT_SIZE));
        if (o.ret.size() >= CRYPT_GENSALT_OUTPUT_SIZE) o.out_unterminated = true;
        free(r);
      } else
        o.returned_null = true;
    }
    free(prefix);
    free(rb);
    return o;
  }

  // ---- hashing family ------------------------------------------------------
  char *ph = nullptr, *st = nullptr;
  if (a.entry == E_CRYPT) {
    if (a.prior == 1) {
      char *h = crypt(a.p0.c_str(), a.s0.c_str());
      if (h && h[0] != '*') o.h0 = h;
    } else if (a.prior == 2)
      (void)crypt("x", "*invalid");
    ph = a.phrase_null ? nullptr : exact_cstr(a.phrase);
    st = a.setting_null ? nullptr : exact_cstr(a.setting);
    errno = 0;
    char *r = crypt_plain()(ph, st);
    o.err = errno;
    if (r) {
      size_t l = strnlen(r, CRYPT_OUTPUT_SIZE);
      o.out_unterminated = l == CRYPT_OUTPUT_SIZE;
      o.ret.assign(r, l);
      o.out_field = o.ret;
    } else
      o.returned_null = true;
    free(ph);
    free(st);
    return o;
  }

  // caller-owned object inside a block with poisoned slack on both sides
  size_t objsize = DS;
  bool small = false;
  if (a.entry == E_CRYPT_RN && (a.size < 0 || (size_t)a.size < DS)) {
    small = true;
    objsize = a.size > 0 ? (size_t)a.size : 1;
  }
  char *raw = (char *)malloc(objsize + 32);
  char *objp = raw + a.align;
  memset(raw, 0xC5, objsize + 32);  // canaries in the slack on both sides (checked after the call: libc routines that
                                    // are not intercepted, e.g. explicit_bzero, write through ASan's manual poisoning unnoticed)
  for (size_t i = 0; i < objsize; i++) objp[i] = (char)fill_byte(fill, i);
  VF_POISON(raw, (size_t)a.align);
  VF_POISON(objp + objsize, 32 - (size_t)a.align);
  struct crypt_data *cd = (struct crypt_data *)objp;
  void *ra_ptr = nullptr;
  int ra_size = 0;
  if (a.entry == E_CRYPT_RA) {
    // own allocation protocol; the block above is not used
    switch (a.ra_state) {
      case 0: ra_ptr = nullptr; ra_size = 0; break;
      case 1: ra_ptr = malloc(DS); ra_size = (int)DS; for (size_t i = 0; i < DS; i++) ((char *)ra_ptr)[i] = (char)fill_byte(fill, i); break;
      case 2: { size_t n = (size_t)(a.size > 0 ? a.size % (long long)DS : 1); if (!n) n = 1; ra_ptr = malloc(n); memset(ra_ptr, 0x5a, n); ra_size = (int)n; break; }
      default: ra_ptr = malloc(64); memset(ra_ptr, 0x5a, 64); ra_size = -(int)(1 + (a.size > 0 ? a.size % 100000 : 7)); break;
    }
  }
  if (!small && a.entry != E_CRYPT_RA) {
    if (a.prior == 1) {
      char *h = crypt_rn(a.p0.c_str(), a.s0.c_str(), cd, (int)DS);
      if (h) o.h0 = h;
    } else if (a.prior == 2)
      (void)crypt_rn("x", "*invalid", cd, (int)DS);
  } else if (a.entry == E_CRYPT_RA && a.ra_state == 1 && a.prior == 1) {
    char *h = crypt_ra(a.p0.c_str(), a.s0.c_str(), &ra_ptr, &ra_size);
    if (h) o.h0 = h;
  }
  bool own = a.own_fields && !small && a.entry != E_CRYPT_RA && !a.phrase_null && !a.setting_null &&
             a.phrase.size() < sizeof cd->input && a.setting.size() < sizeof cd->setting;
  if (!small && a.entry != E_CRYPT_RA) {
    if (own) {
      memcpy(cd->input, a.phrase.c_str(), a.phrase.size() + 1);
      memcpy(cd->setting, a.setting.c_str(), a.setting.size() + 1);
      ph = cd->input;
      st = cd->setting;
    }
  }
  if (!own) {
    ph = a.phrase_null ? nullptr : exact_cstr(a.phrase);
    st = a.setting_null ? nullptr : exact_cstr(a.setting);
  }
  Bytes snap_setting, snap_input, snap_rest;
  if (!small && a.entry != E_CRYPT_RA) {
    snap_setting.assign(cd->setting, sizeof cd->setting);
    snap_input.assign(cd->input, sizeof cd->input);
    // make the scratch areas recognisable again after a prior call wiped them
    for (size_t i = 0; i < sizeof cd->internal; i++) cd->internal[i] = (char)fill_byte(fill == 0 ? 1 : fill, i);
    for (size_t i = 0; i < sizeof cd->reserved; i++) cd->reserved[i] = (char)fill_byte(fill == 0 ? 1 : fill, i + 7);
    cd->initialized = (char)fill_byte(fill == 0 ? 1 : fill, 3);
    if (fill == 0) {
      memset(cd->internal, 0, sizeof cd->internal);
      memset(cd->reserved, 0, sizeof cd->reserved);
      cd->initialized = 0;
    }
  }
  errno = 0;
  char *r = nullptr;
  switch (a.entry) {
    case E_CRYPT_R: r = crypt_r(ph, st, cd); break;
    case E_CRYPT_RN: r = crypt_rn(ph, st, cd, small ? (int)a.size : (int)DS); break;
    default: r = crypt_ra(ph, st, &ra_ptr, &ra_size); break;
  }
  o.err = errno;
  o.returned_null = r == nullptr;
  if (a.entry == E_CRYPT_RA) {
    if (ra_ptr) {
      struct crypt_data *p = (struct crypt_data *)ra_ptr;
      if (ra_size < (int)DS) o.problem = "crypt_ra left *size (" + std::to_string(ra_size) + ") below sizeof(struct crypt_data)";
      if (ra_size >= (int)DS) {
        size_t l = strnlen(p->output, sizeof p->output);
        o.out_unterminated = l == sizeof p->output;
        o.out_field.assign(p->output, l);
        if (r && r != p->output) o.ptr_ok = false;
        if (r) o.ret.assign(r, strnlen(r, sizeof p->output));
        bool z = p->initialized == 0;
        for (size_t i = 0; z && i < sizeof p->internal; i++) z = p->internal[i] == 0;
        for (size_t i = 0; z && i < sizeof p->reserved; i++) z = p->reserved[i] == 0;
        o.wiped = z;
      }
      free(ra_ptr);
    } else if (r)
      o.ptr_ok = false;
  } else if (small) {
    if (a.size > 0) {
      size_t l = strnlen(objp, objsize);
      o.out_unterminated = l == objsize && objsize >= 1 && a.size >= 1;
      o.out_field.assign(objp, l);
      // bytes beyond the failure token must be untouched
      size_t tok = a.size >= 3 ? 3 : (size_t)a.size;
      for (size_t i = tok; i < objsize; i++)
        if ((unsigned char)objp[i] != fill_byte(fill, i)) { o.problem = "crypt_rn with a too-small size wrote beyond the failure token (offset " + std::to_string(i) + ")"; break; }
    } else if ((unsigned char)objp[0] != fill_byte(fill, 0))
      o.problem = "crypt_rn wrote although size <= 0";
    if (r) o.ptr_ok = false;
  } else {
    size_t l = strnlen(cd->output, sizeof cd->output);
    o.out_unterminated = l == sizeof cd->output;
    o.out_field.assign(cd->output, l);
    if (r) {
      if (r < cd->output || r >= cd->output + sizeof cd->output) o.ptr_ok = false;
      else {
        size_t rl = strnlen(r, (size_t)(cd->output + sizeof cd->output - r));
        if (r + rl >= cd->output + sizeof cd->output) o.out_unterminated = true;
        o.ret.assign(r, rl);
      }
    }
    if (Bytes(cd->setting, sizeof cd->setting) != snap_setting) { o.fields_intact = false; o.problem = "the application-owned setting field was modified"; }
    if (Bytes(cd->input, sizeof cd->input) != snap_input) { o.fields_intact = false; o.problem = "the application-owned input field was modified"; }
    bool z = cd->initialized == 0;
    for (size_t i = 0; z && i < sizeof cd->internal; i++) z = cd->internal[i] == 0;
    for (size_t i = 0; z && i < sizeof cd->reserved; i++) z = cd->reserved[i] == 0;
    o.wiped = z;
    if (fill != 0) {
      int f = fill;
      bool u = (unsigned char)cd->initialized == fill_byte(f, 3);
      for (size_t i = 0; u && i < sizeof cd->internal; i++) u = (unsigned char)cd->internal[i] == fill_byte(f, i);
      for (size_t i = 0; u && i < sizeof cd->reserved; i++) u = (unsigned char)cd->reserved[i] == fill_byte(f, i + 7);
      o.untouched = u;
    }
  }
  if (!own) {
    free(ph);
    free(st);
  }
  VF_UNPOISON(raw, objsize + 32);
  for (size_t i = 0; i < objsize + 32; i++) {
    if (raw + i >= objp && raw + i < objp + objsize) continue;
    if ((unsigned char)raw[i] != 0xC5) {
      long off = (long)i - (long)a.align;
      o.problem = "a byte outside the caller's data object was modified (offset " + std::to_string(off) + " relative to the object of " + std::to_string(objsize) + " bytes)";
      break;
    }
  }
  free(raw);
  return o;
}

// ---- oracles -----------------------------------------------------------------------
inline std::string api_describe(const ApiCase &a) {
  std::string s = ENTRY_NAME[a.entry];
  s += "(";
  if (a.entry <= E_CRYPT_RA) {
    s += a.phrase_null ? "NULL" : "\"" + vis(a.phrase, 40) + "\"";
    s += ", ";
    s += a.setting_null ? "NULL" : "\"" + vis(a.setting, 120) + "\"";
    if (a.entry == E_CRYPT_RN) s += ", size=" + std::to_string(a.size);
    if (a.entry == E_CRYPT_RA) s += ", ra_state=" + std::to_string(a.ra_state);
  } else if (a.entry == E_CHECKSALT) {
    s += a.setting_null ? "NULL" : "\"" + vis(a.setting, 120) + "\"";
  } else {
    s += a.setting_null ? "NULL" : "\"" + vis(a.setting, 60) + "\"";
    s += ", " + std::to_string(a.count) + ", " + (a.rbytes_null ? "NULL" : "rbytes") + ", nrbytes=" + std::to_string(a.nrbytes);
    if (a.entry == E_GENSALT_RN) s += ", output_size=" + std::to_string(a.output_size);
  }
  s += ") align=" + std::to_string(a.align) + " fill=" + std::to_string(a.fill) + (a.own_fields ? " own-fields" : "") + " prior=" + std::to_string(a.prior);
  return s;
}

// C04: confinement and determinism over garbage.  o1/o2: the same call over two different prefills.
inline Verdict c04_oracle(const ApiCase &a, const ApiObs &o1, const ApiObs &o2) {
  std::string d = " in " + api_describe(a);
  for (const ApiObs *o : {&o1, &o2}) {
    if (!o->problem.empty()) return "C04 " + o->problem + d;
    if (!o->ptr_ok) return "C04 returned pointer lies outside the permitted result area" + d;
    if (o->out_unterminated) return "C04 result area holds no NUL terminator" + d;
    if (!o->fields_intact) return "C04 application-owned field modified" + d;
    if (!o->returned_null && a.entry <= E_CRYPT_RA && o->ret.size() >= CRYPT_OUTPUT_SIZE) return "C04 result does not fit the output field" + d;
  }
  if (a.entry >= E_GENSALT && a.entry <= E_GENSALT_RA && a.rbytes_null) {
    // OS entropy: the two runs legitimately differ in the salt; only the outcome class is compared
    if (o1.returned_null != o2.returned_null) return "C04 outcome of crypt_gensalt with OS entropy differs between identical calls" + d;
    return "";
  }
  if (o1.returned_null != o2.returned_null || o1.ret != o2.ret || o1.out_field != o2.out_field || o1.err != o2.err || o1.checksalt != o2.checksalt)
    return "C04 result depends on the prior contents of the scratch areas (uninitialised-memory dependence): \"" + vis(o1.ret, 100) + "\"/errno " + std::to_string(o1.err) + " vs \"" + vis(o2.ret, 100) + "\"/errno " + std::to_string(o2.err) + d;
  return "";
}

// C05: fail-closed.  Applies to the hashing family only.
inline Verdict c05_oracle(const ApiCase &a, const ApiObs &o, bool *failed_out = nullptr) {
  if (a.entry > E_CRYPT_RA) return "";
  std::string d = " in " + api_describe(a);
  std::string why;
  bool must = api_must_fail(a, why);
  bool failed = o.returned_null || (!o.ret.empty() && o.ret[0] == '*') || (a.entry <= E_CRYPT_R && !o.returned_null && o.ret.empty());
  if (failed_out) *failed_out = failed;
  if (must && !failed) return "C05 call that cannot produce a hash (" + why + ") returned \"" + vis(o.ret, 200) + "\"" + d;
  if (!failed) {
    // A call that reports success must have produced a hash: a string of the method's documented shape.
    // Anything else means the call could not produce a hash and yet did not fail closed.
    Method m = result_method(a.setting, a.phrase.size());
    if (m == M_NONE || !passwd_safe(o.ret)) return "C05 a call reported success with a string that is not a hash: \"" + vis(o.ret, 200) + "\"" + d;
    if (classify_tag(o.ret) != classify_tag(a.setting)) return "C05 a call reported success with a result of another method: \"" + vis(o.ret, 200) + "\"" + d;
    Split sp = split_hash(m, o.ret);
    size_t dl = digest_len(m);
    if (!sp.ok || (dl && sp.digest.size() != dl) || (!dl && sp.digest.size() % 11 != 0) || !all_in(sp.digest, digest_alphabet(m)))
      return "C05 a call reported success with a string that does not end in a digest of its method: \"" + vis(o.ret, 200) + "\", errno " + std::to_string(o.err) + d;
    // ... and that string must verify: hashing the phrase with it reproduces it (otherwise nothing can ever authenticate against it).
    // Known finding K1 (KNOWN_FINDINGS.txt): scrypt results longer than 339 characters are not accepted back.
    if (!(m == M_SCRYPT && o.ret.size() > 339)) {
      HashRes h = hash_rn(a.phrase, o.ret);
      if (!h.ok || h.out != o.ret) return "C05 a call reported success with a string that does not verify (crypt(P, result) gives " + (h.ok ? "\"" + vis(h.out, 120) + "\"" : std::string("failure")) + "): \"" + vis(o.ret, 200) + "\", errno " + std::to_string(o.err) + d;
    }
    return "";
  }
  // return value
  if (a.entry >= E_CRYPT_RN && !o.returned_null) return "C05 " + std::string(ENTRY_NAME[a.entry]) + " returned a string on failure: \"" + vis(o.ret, 100) + "\"" + d;
  if (a.entry <= E_CRYPT_R) {
#if VF_FAILURE_TOKENS
    // NULL is tolerated by the statement ("NULL or the failure token according to the build option"); this build uses tokens
    if (o.returned_null) return "C05 " + std::string(ENTRY_NAME[a.entry]) + " returned NULL although the build uses failure tokens" + d;
#else
    if (!o.returned_null) return "C05 " + std::string(ENTRY_NAME[a.entry]) + " returned a token although the build returns NULL on failure" + d;
#endif
  }
  if (o.err != EINVAL && o.err != ERANGE && o.err != ENOMEM) return "C05 failure with errno " + std::to_string(o.err) + " (not EINVAL/ERANGE/ENOMEM)" + d;
  // contents of the output field
  bool small = a.entry == E_CRYPT_RN && (a.size < 0 || (size_t)a.size < sizeof(struct crypt_data));
  if (small && a.size <= 0) return "";  // nothing may be written; checked by the executor
  if (small && a.size < 3) {
    const char *want = a.size == 2 ? "*" : "";
    if (o.out_field != want) return "C05 truncated failure token is \"" + vis(o.out_field, 20) + "\" expected \"" + want + "\"" + d;
    return "";
  }
  if (a.entry == E_CRYPT_RA && o.out_field.empty() && o.err == ENOMEM) return "";
  const Bytes &t = (a.entry == E_CRYPT && o.returned_null) ? o.out_field : o.out_field;
  if (a.entry == E_CRYPT && o.returned_null) return "";
  if (t.empty() || t[0] != '*') return "C05 output field after a failure does not start with '*': \"" + vis(t, 100) + "\"" + d;
  if (t.size() >= 13) return "C05 failure token is 13 or more characters long: \"" + vis(t, 100) + "\"" + d;
  if (!a.setting_null && t == a.setting) return "C05 failure token equals the setting \"" + vis(t, 20) + "\"" + d;
  if (crypt_checksalt(t.c_str()) != CRYPT_SALT_INVALID) return "C05 crypt_checksalt does not reject the failure token \"" + vis(t, 20) + "\"" + d;
  {
    HashRes h = hash_rn(a.phrase_null ? Bytes("x") : a.phrase.substr(0, 511), t);
    if (h.ok) return "C05 the failure token \"" + vis(t, 20) + "\" is accepted as a setting" + d;
  }
  // never the hash of an earlier call
  if (!o.h0.empty()) {
    if (o.ret == o.h0 || o.out_field == o.h0) return "C05 a failed call left or returned the hash of the previous call: " + vis(o.h0, 100) + d;
    Method m0 = result_method(a.s0, a.p0.size());
    Split sp = split_hash(m0, o.h0);
    if (sp.ok && sp.digest.size() >= 8 && (o.out_field.find(sp.digest) != Bytes::npos || o.ret.find(sp.digest) != Bytes::npos))
      return "C05 a failed call exposes the digest of the previous call" + d;
  }
  return "";
}

}  // namespace vf
