// Valid-by-construction settings of every method stretched to an exact total
// length: the region around the 384-byte output field, where size checks
// decide between "hash fits" and ERANGE.  Deterministic (no generator needed).
#pragma once
#include "methods.hpp"

namespace vf {

inline Bytes a64_fill(size_t n, uint64_t seed) {
  Bytes o;
  for (size_t i = 0; i < n; i++) {
    uint64_t k = seed * 1315423911ULL + i;
    o.push_back(A64[(fnv(&k, sizeof k) >> 17) & 63]);
  }
  return o;
}

// all boundary settings of total length L (those forms that can have that length)
inline std::vector<std::pair<Bytes, std::string>> boundary_settings(size_t L) {
  std::vector<std::pair<Bytes, std::string>> v;
  auto add = [&](const Bytes &head, const Bytes &tail_after_fill, const std::string &name, uint64_t seed, const Bytes &fill_prefix = Bytes()) {
    size_t fixed = head.size() + fill_prefix.size() + tail_after_fill.size();
    if (L < fixed) return;
    v.emplace_back(head + fill_prefix + a64_fill(L - fixed, seed + L) + tail_after_fill, name);
  };
  add("ab", "", "descrypt/tail", 1);
  add("_/...", "", "bsdicrypt/tail", 2);
  add("$1$", "", "md5crypt/salt", 3);
  add("$1$", "$", "md5crypt/salt$", 4);
  add("$1$saltsalt$", "", "md5crypt/tail", 5);
  add("$5$rounds=1000$", "", "sha256crypt/salt", 6);
  add("$5$rounds=1000$", "$", "sha256crypt/salt$", 7);
  add("$5$rounds=1000$salt$", "", "sha256crypt/tail", 8);
  add("$6$rounds=1000$", "", "sha512crypt/salt", 9);
  add("$6$rounds=1000$", "$", "sha512crypt/salt$", 10);
  add("$6$rounds=1000$salt$", "", "sha512crypt/tail", 11);
  add("$sha1$1$", "", "sha1crypt/salt", 12);
  add("$sha1$1$", "$", "sha1crypt/salt$", 13);
  add("$sha1$12345$", "$", "sha1crypt/5digits-salt$", 14);
  add("$sha1$1$salt$", "", "sha1crypt/tail", 15);
  add("$md5$", "", "sunmd5/salt", 16);
  add("$md5$", "$", "sunmd5/salt$", 17);
  add("$md5$", "$$", "sunmd5/salt$$", 18);
  add("$md5,rounds=7$", "$", "sunmd5/rounds-salt$", 19);
  add("$md5,rounds=7$", "", "sunmd5/rounds-salt", 20);
  add("$md5$salt$$", "", "sunmd5/tail", 21);
  add("$3$", "", "nt/tail", 22);
  add("$2b$04$abcdefghijklmnopqrstuu", "", "bcrypt/tail", 23);
  add("$2a$04$abcdefghijklmnopqrstuu", "", "bcrypt_a/tail", 24);
  add("$2x$04$abcdefghijklmnopqrstuu", "", "bcrypt_x/tail", 25);
  add("$2y$04$abcdefghijklmnopqrstuu", "", "bcrypt_y/tail", 26);
  add("$7$0/..../....", "", "scrypt/salt", 27);
  add("$7$0/..../....", "$", "scrypt/salt$", 28);
  add("$7$0/..../....salt$", "", "scrypt/tail", 29);
  add("$y$j/.$", "", "yescrypt/tail", 30, "n34PoBLMgF5$");
  add("$y$j/.$", "", "yescrypt/salt86-tail", 31, b64le_encode(a64_fill(64, 99)) + "$");
  add("$gy$j/.$", "", "gost-yescrypt/tail", 32, "n34PoBLMgF5$");
  add("$gy$j/.$", "", "gost-yescrypt/salt86-tail", 33, b64le_encode(a64_fill(64, 98)) + "$");
  return v;
}
static const size_t BOUNDARY_LO = 280, BOUNDARY_HI = 420;

}  // namespace vf
