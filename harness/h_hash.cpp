// Hash-level properties over (phrase, setting): C01 round trip, C02 reference
// equality, C03 no false accept, C06 well-formedness.
#include "api.hpp"
#include "main.hpp"
#include "methods.hpp"
#include "ref/ref.hpp"
#include "boundary.hpp"
#ifndef VF_NO_RC
#include "gen.hpp"
#endif

using namespace vf;

// ---------------------------------------------------------------------------
// C06 checks on one successful result H of crypt(P, S).  rb: 64 random bytes.
static Verdict c06_checks(const Bytes &P, const Bytes &S, const Bytes &H, const Bytes &rb, Ctx &ctx, bool reaccept) {
  Method m = result_method(S, P.size());
  if (H.size() >= CRYPT_OUTPUT_SIZE) return "C06 result not shorter than CRYPT_OUTPUT_SIZE: len=" + std::to_string(H.size());
  if (H.empty()) return "C06 empty result";
  if (!passwd_safe(H)) return "C06 result contains a character outside the passwd(5)-safe set: " + vis(H, 300);
  if (H[0] == '*') return "C06 successful result begins with '*': " + vis(H);
  if (m == M_NONE) return "C06 success for a setting with no recognised tag: " + vis(S);
  // same method prefix as the setting
  Method mh = classify_tag(H);
  Method ms = classify_tag(S);
  if (mh != ms) return "C06 result selects another method than the setting: S=" + vis(S) + " H=" + vis(H);
  if (ms != M_DES && !starts(H, METHOD_TAG[ms])) return "C06 result does not begin with the setting's tag";
  std::string sh = shape_check(m, H);
  if (!sh.empty()) return "C06 shape: " + sh;
  ctx.st.cls(std::string("c06/") + METHOD_NAME[m]);
  {
    // histogram of the last digest character (value-dependent encoding paths)
    ctx.st.cls(std::string("c06-lastchar/") + METHOD_NAME[m] + "/" + std::string(1, H.back()));
  }
  {
    // the result must be a NUL-terminated string of that shape whatever the output field held before the call
    HashRes hd = hash_rn_dirty(P, S);
    ctx.st.executed++;
    if (!hd.ok || hd.out != H)
      return "C06 over an output field that held other data the result is " + (hd.ok ? "\"" + vis(hd.out, 120) + "\" (length " + std::to_string(hd.out.size()) + ")" : std::string("a failure")) + " instead of the " + std::to_string(H.size()) + "-character string " + vis(H, 120);
  }
  if (reaccept) {
    HashRes h2 = hash_rn(P, H);
    ctx.st.executed++;
    if (!h2.ok) return "C06 result is not accepted as a setting: H=" + vis(H, 300) + " errno=" + std::to_string(h2.err);
  }
  // accepted as a gensalt prefix selecting the same method
  char buf[CRYPT_GENSALT_OUTPUT_SIZE + 8];
  memset(buf, 'Z', sizeof buf);
  Bytes r64 = rb;
  r64.resize(64, '\x5a');
  errno = 0;
  char *gs = crypt_gensalt_rn(H.c_str(), 0, r64.data(), 64, buf, CRYPT_GENSALT_OUTPUT_SIZE);
  int e = errno;
  ctx.st.executed++;
  if (ms == M_BF_X) {
    // crypt(5): $2x$ must never be used for new hashes; EINVAL is the documented answer
    if (gs) return "C06 crypt_gensalt produced a $2x$ setting: " + vis(gs);
    if (e != EINVAL) return "C06 gensalt($2x$ hash) failed with errno " + std::to_string(e) + " instead of EINVAL";
  } else {
    if (!gs) return "C06 result not accepted as gensalt prefix: H=" + vis(H, 200) + " errno=" + std::to_string(e);
    Bytes g(gs);
    if (classify_prefix(g) != ms && !(ms == M_DES && classify_tag(g) == M_DES))
      return "C06 gensalt(H) selected another method: H=" + vis(H, 100) + " -> " + vis(g);
    if (ms != M_DES && !starts(g, METHOD_TAG[ms])) return "C06 gensalt(H) lacks the tag: " + vis(g);
  }
  return "";
}

// replace the digest portion of H by same-length text of the digest alphabet
static Bytes replace_digest(Method m, const Bytes &H, const Bytes &repl) {
  Split sp = split_hash(m, H);
  if (!sp.ok) return Bytes();
  const char *al = digest_alphabet(m);
  size_t an = strlen(al);
  Bytes d;
  for (size_t i = 0; i < sp.digest.size(); i++) {
    unsigned char v = i < repl.size() ? (unsigned char)repl[i] : (unsigned char)(i * 7 + 3);
    d.push_back(al[v % an]);
  }
  return sp.setting + d;
}

// ---------------------------------------------------------------------------
// C01: phrase, setting, repl
static Verdict c01_check_raw(const KV &c, Ctx &ctx) {
  const Bytes &P = c.get("phrase"), &S = c.get("setting"), &repl = c.get("repl");
  if (P.size() >= 512 || memchr(P.data(), 0, P.size()) || memchr(S.data(), 0, S.size())) return "";
  Cost cost = decode_cost(S, P.size());
  cost.units *= 4;  // up to four hashes per case
  Method m = result_method(S, P.size());
  if (!affordable_q(cost, ctx.tier, (int)classify_tag(S))) {
    ctx.st.skipped_cost++;
    ctx.st.cls(std::string("skipped-cost/") + METHOD_NAME[m]);
    return "";
  }
  HashRes h = hash_rn(P, S);
  ctx.st.executed++;
  if (!h.ok) {
    ctx.st.cls(std::string("c01-rejected/") + METHOD_NAME[m]);
    return "";
  }
  const Bytes &H = h.out;
  if (ctx.st.nontriv(fnv(P + '\0' + S))) ctx.st.sample("crypt(\"" + vis(P, 40) + "\", \"" + vis(S, 120) + "\") = \"" + vis(H, 140) + "\"");
  ctx.st.cls(std::string("c01/") + METHOD_NAME[m] + "/" + c.get("cls"));
  ctx.st.cls(std::string("c01-plen/") + (P.size() == 0 ? "0" : P.size() <= 8 ? "1-8" : P.size() <= 72 ? "9-72" : P.size() <= 128 ? "73-128" : P.size() <= 255 ? "129-255" : "256-511"));
  // (a) H as setting reproduces H
  HashRes h2 = hash_rn(P, H);
  ctx.st.executed++;
  if (!h2.ok) return "C01 crypt(P, H) failed (errno " + std::to_string(h2.err) + ") for H=" + vis(H, 300) + " from S=" + vis(S, 300);
  if (h2.out != H) return "C01 crypt(P, H) != H: H=" + vis(H, 300) + " got " + vis(h2.out, 300);
  // (b) same-length replacement of the hash portion
  Bytes H2 = replace_digest(m, H, repl);
  if (H2.empty()) return "C01 result cannot be split into setting and digest: " + vis(H, 300);
  if (H2.size() != H.size()) return "C01 internal: replacement changed the length";
  HashRes h3 = hash_rn(P, H2);
  ctx.st.executed++;
  if (!h3.ok) return "C01 crypt(P, H') failed for H'=" + vis(H2, 300) + " (H=" + vis(H, 300) + ")";
  if (h3.out != H) return "C01 hash portion of the setting influenced the result: H'=" + vis(H2, 300) + " gave " + vis(h3.out, 300) + " expected " + vis(H, 300);
  // (c) through crypt_r
  {
    static struct crypt_data *cd = (struct crypt_data *)calloc(1, sizeof(struct crypt_data));
    memset(cd, 0, sizeof *cd);
    char *p = crypt_r(P.c_str(), H2.c_str(), cd);
    ctx.st.executed++;
    if (!p || H != p) return "C01 crypt_r(P, H') differs: " + vis(p ? p : "(null)", 300) + " expected " + vis(H, 300);
  }
  // C06 rides along (the re-accept part is (a) above)
  return c06_checks(P, S, H, repl, ctx, false);
}

// C06 as its own property: same case layout as C01
static Verdict c06_check_raw(const KV &c, Ctx &ctx) {
  const Bytes &P = c.get("phrase"), &S = c.get("setting"), &repl = c.get("repl");
  if (P.size() >= 512 || memchr(P.data(), 0, P.size()) || memchr(S.data(), 0, S.size())) return "";
  Cost cost = decode_cost(S, P.size());
  cost.units *= 2;
  if (!affordable_q(cost, ctx.tier, (int)classify_tag(S))) {
    ctx.st.skipped_cost++;
    return "";
  }
  HashRes h = hash_rn(P, S);
  ctx.st.executed++;
  if (!h.ok) return "";
  Method m = result_method(S, P.size());
  if (ctx.st.nontriv(fnv(Bytes(METHOD_NAME[m]) + '\0' + h.out))) ctx.st.sample("\"" + vis(h.out, 200) + "\"  <- crypt(\"" + vis(P, 24) + "\", \"" + vis(S, 100) + "\")");
  ctx.st.cls(std::string("c06-salt/") + METHOD_NAME[m] + "/" + c.get("cls"));
  return c06_checks(P, S, h.out, repl, ctx, true);
}

static Verdict c01_check(const KV &c, Ctx &ctx) { return ctx.filter_known("C01", c01_check_raw(c, ctx)); }
static Verdict c06_check(const KV &c, Ctx &ctx) { return ctx.filter_known("C06", c06_check_raw(c, ctx)); }

#include "h_hash_c02c03.inc"

#ifndef VF_NO_RC
static KV gen_ps_case(Ctx &ctx, bool unusual) {
  KV c;
  g::SOpts o;
  o.cheap = !ctx.tier.thorough || g::coin(3, 4);
  Method m = g::any_method();
  g::SGen sg = g::valid_setting(m, o);
  if (g::coin(1, 4)) {
    // one or two passwd-safe edits: whatever the library still accepts must still be a well-formed, re-usable hash
    sg.s = g::mutate(sg.s, 2, false);
    sg.cls = "mutated";
  }
  size_t maxlen = 511;
  Bytes P = g::phrase(maxlen);
  (void)unusual;
  c.set("phrase", P);
  c.set("setting", sg.s);
  c.set("repl", g::rbytes(96, 0));
  c.set("cls", sg.cls);
  return c;
}
static int c01_run(Ctx &ctx) {
  return run_rc_generic(ctx, "C01", c01_check, [&]() { return gen_ps_case(ctx, false); });
}
static int c06_run(Ctx &ctx) {
  return run_rc_generic(ctx, "C06", c06_check, [&]() { return gen_ps_case(ctx, true); });
}
#else
#define c01_run nullptr
#define c06_run nullptr
#define c02_run nullptr
#define c03_run nullptr
#endif

// every method's settings at every total length around the size of the output field (exhaustive over that grid)
static int boundary_grid(Ctx &ctx, Verdict (*check)(const KV &, Ctx &)) {
  size_t idx = 0;
  static const char *PH[] = {"", "pw", "a phrase of thirty-one characters"};
  for (size_t L = BOUNDARY_LO; L <= BOUNDARY_HI; L++)
    for (auto &bs : boundary_settings(L)) {
      if ((idx++ % (size_t)ctx.nshards) != (size_t)ctx.shard) continue;
      KV c;
      c.set("phrase", PH[idx % 3]);
      c.set("setting", bs.first);
      c.set("repl", a64_fill(96, idx));
      c.set("cls", "boundary/" + bs.second);
      ctx.st.evaluations++;
      ctx.current(c);
      uint64_t before = ctx.st.nontrivial;
      Verdict v = check(c, ctx);
      if (!v.empty()) {
        ctx.fail(c, v);
        return 1;
      }
      ctx.st.cls(std::string("boundary-grid/") + (ctx.st.nontrivial > before ? "hashed/" : "rejected/") + bs.second.substr(0, bs.second.find('/')));
    }
  return 0;
}
static int c01_grid(Ctx &ctx) { return boundary_grid(ctx, c01_check); }
static int c06_grid(Ctx &ctx) { return boundary_grid(ctx, c06_check); }

static Prop PROPS[] = {
  {"C01", c01_check, c01_run, c01_grid},
  {"C02", c02_check, c02_run, nullptr},
  {"C03", c03_check, c03_run, nullptr},
  {"C06", c06_check, c06_run, c06_grid},
};

int main(int argc, char **argv) { return vf_main(argc, argv, PROPS, sizeof PROPS / sizeof *PROPS); }
