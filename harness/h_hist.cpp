// C07: hashing is a pure function of its inputs across entry points and call history.
// The freshly built shared library is dlopen'ed (VF_SHARED_LIB) so that crypt()'s,
// crypt_gensalt()'s and setkey()'s static areas live in one library instance and the
// obsolete DES symbols are reachable.
#include <dlfcn.h>
#include <sys/wait.h>

#include "main.hpp"
#include "methods.hpp"
#include "ref/ref.hpp"
#ifndef VF_NO_RC
#include "gen.hpp"
#endif

using namespace vf;
static const size_t DS = 32768;

struct Lib {
  void *h = nullptr;
  char *(*crypt)(const char *, const char *);
  char *(*crypt_r)(const char *, const char *, void *);
  char *(*crypt_rn)(const char *, const char *, void *, int);
  char *(*crypt_ra)(const char *, const char *, void **, int *);
  char *(*crypt_gensalt)(const char *, unsigned long, const char *, int);
  char *(*crypt_gensalt_rn)(const char *, unsigned long, const char *, int, char *, int);
  int (*crypt_checksalt)(const char *);
  void (*setkey)(const char *);
  void (*encrypt)(char *, int);
  void (*setkey_r)(const char *, void *);
  void (*encrypt_r)(char *, int, void *);
  bool ok = false;
  static Lib &get() {
    static Lib l;
    static bool init = false;
    if (!init) {
      init = true;
      const char *p = getenv("VF_SHARED_LIB");
      if (p) l.h = dlopen(p, RTLD_NOW | RTLD_LOCAL);
      if (l.h) {
#define LD(n) l.n = (decltype(l.n))dlsym(l.h, #n)
        LD(crypt); LD(crypt_r); LD(crypt_rn); LD(crypt_ra); LD(crypt_gensalt); LD(crypt_gensalt_rn); LD(crypt_checksalt);
#undef LD
        l.setkey = (decltype(l.setkey))dlvsym(l.h, "setkey", "GLIBC_2.2.5");
        l.encrypt = (decltype(l.encrypt))dlvsym(l.h, "encrypt", "GLIBC_2.2.5");
        l.setkey_r = (decltype(l.setkey_r))dlvsym(l.h, "setkey_r", "GLIBC_2.2.5");
        l.encrypt_r = (decltype(l.encrypt_r))dlvsym(l.h, "encrypt_r", "GLIBC_2.2.5");
        l.ok = l.crypt && l.crypt_r && l.crypt_rn && l.crypt_ra && l.crypt_gensalt && l.crypt_gensalt_rn && l.crypt_checksalt && l.setkey && l.encrypt && l.setkey_r && l.encrypt_r;
      }
    }
    return l;
  }
};

// reference evaluation in a forked child: crypt_rn on a fresh zeroed object, no history
static Bytes eval_fresh(const Bytes &P, const Bytes &S) {
  Lib &L = Lib::get();
  int fd[2];
  if (pipe(fd)) return "\x02pipe";
  pid_t pid = fork();
  if (pid == 0) {
    close(fd[0]);
    void *cd = calloc(1, DS);
    char *r = L.crypt_rn(P.c_str(), S.c_str(), cd, (int)DS);
    std::string m = r ? std::string("=") + r : std::string("!");
    (void)!write(fd[1], m.data(), m.size());
    _exit(0);
  }
  close(fd[1]);
  std::string buf;
  char t[1024];
  ssize_t n;
  while ((n = read(fd[0], t, sizeof t)) > 0) buf.append(t, (size_t)n);
  close(fd[0]);
  int st;
  waitpid(pid, &st, 0);
  if (buf.empty()) return "\x02" "child died";
  return buf;  // "=<hash>" or "!"
}

struct Obj {
  char *raw = nullptr;
  char *p = nullptr;
  bool deskey = false;
  unsigned char key[8];
  int held = -1;  // request whose phrase and setting currently sit in the object's own input/setting fields
};
// the application-owned fields of struct crypt_data (released layout, asserted by C20)
static const size_t OFF_SETTING = 384, LEN_SETTING = 384, OFF_INPUT = 768, LEN_INPUT = 512;

static void to_vec(const unsigned char b[8], char v[64]) {
  for (int i = 0; i < 64; i++) v[i] = (char)((b[i / 8] >> (7 - i % 8)) & 1);
}
static void from_vec(const char v[64], unsigned char b[8]) {
  memset(b, 0, 8);
  for (int i = 0; i < 64; i++) b[i / 8] = (unsigned char)(b[i / 8] | ((v[i] & 1) << (7 - i % 8)));
}

static const char *const OPN[] = {"crypt", "crypt_r", "crypt_rn", "crypt_ra", "gensalt->crypt", "crypt_gensalt_rn", "setkey", "encrypt", "setkey_r", "encrypt_r", "crypt_checksalt"};

// case: nreq, p<i>, s<i>; nobj, objinit (bytes: per object align|fill); ops: 4 bytes each [op, obj, req, arg]
static Verdict c07_check(const KV &c, Ctx &ctx) {
  Lib &L = Lib::get();
  if (!L.ok) return "C07 internal: the freshly built shared library could not be loaded or lacks an expected symbol";
  int nreq = (int)c.geti("nreq");
  if (nreq < 1) return "";
  if (nreq > 10) nreq = 10;
  std::vector<Bytes> P((size_t)nreq), S((size_t)nreq), M((size_t)nreq);
  for (int i = 0; i < nreq; i++) {
    P[(size_t)i] = c.get("p" + std::to_string(i));
    S[(size_t)i] = c.get("s" + std::to_string(i));
    P[(size_t)i] = P[(size_t)i].substr(0, P[(size_t)i].find('\0'));
    S[(size_t)i] = S[(size_t)i].substr(0, S[(size_t)i].find('\0'));
    Cost k = decode_cost(S[(size_t)i], P[(size_t)i].size());
    k.units *= 6;
    if (passwd_safe(S[(size_t)i]) && P[(size_t)i].size() < 512 && !affordable(k, ctx.tier)) {
      ctx.st.skipped_cost++;
      return "";
    }
  }
  for (int i = 0; i < nreq; i++) {
    M[(size_t)i] = eval_fresh(P[(size_t)i], S[(size_t)i]);
    if (M[(size_t)i][0] == '\x02') return "C07 internal: reference evaluation failed";
  }
  const Bytes &oi = c.get("objinit");
  int nobj = (int)oi.size();
  if (nobj < 1) return "";
  if (nobj > 4) nobj = 4;
  Obj objs[4];
  bool odd_object = false;
  for (int i = 0; i < nobj; i++) {
    int al = (unsigned char)oi[(size_t)i] & 15, fill = ((unsigned char)oi[(size_t)i] >> 4) & 3;
    objs[i].raw = (char *)malloc(DS + 16);
    objs[i].p = objs[i].raw + al;
    for (size_t k = 0; k < DS; k++) objs[i].p[k] = fill == 0 ? 0 : fill == 1 ? (char)0xff : (char)(fnv(&k, sizeof k, (uint64_t)i * 77 + (unsigned char)oi[(size_t)i]) >> 21);
    if (al || fill) odd_object = true;
  }
  void *ra = nullptr;
  int ras = 0;
  bool skey = false;
  unsigned char skeyb[8];
  const Bytes &ops = c.get("ops");
  Verdict v;
  std::map<int, std::set<int>> preds;  // request -> set of predecessor op kinds
  int prev_kind = -1, nchecked = 0, in_object = 0;
  std::string trace;
  auto expect_hash = [&](int op, int ri, const char *r, bool token_ok) -> Verdict {
    const Bytes &m = M[(size_t)ri];
    std::string got = r ? r : "(null)";
    bool failed = !r || r[0] == '*';
    nchecked++;
    preds[ri].insert(prev_kind);
    if (m[0] == '!') {
      if (!failed) return std::string("C07 ") + OPN[op] + " returned \"" + vis(got, 100) + "\" for a request that fails on a fresh object: crypt(\"" + vis(P[(size_t)ri], 30) + "\", \"" + vis(S[(size_t)ri], 80) + "\")";
      if (r && !token_ok) return std::string("C07 ") + OPN[op] + " returned a string on failure";
      return "";
    }
    if (failed || got != m.substr(1)) return std::string("C07 ") + OPN[op] + " returned \"" + vis(got, 120) + "\" but the same request on a fresh zeroed object gives \"" + vis(m.substr(1), 120) + "\" [crypt(\"" + vis(P[(size_t)ri], 30) + "\", \"" + vis(S[(size_t)ri], 80) + "\") after: " + trace + "]";
    return "";
  };
  for (size_t i = 0; i + 4 <= ops.size() && v.empty(); i += 4) {
    int op = (unsigned char)ops[i] % 11, o = (unsigned char)ops[i + 1] % nobj, ri = (unsigned char)ops[i + 2] % nreq;
    unsigned char arg = (unsigned char)ops[i + 3];
    Obj &ob = objs[o];
    ctx.st.executed++;
    switch (op) {
      case 0: v = expect_hash(op, ri, L.crypt(P[(size_t)ri].c_str(), S[(size_t)ri].c_str()), true); break;
      case 1: case 2: {
        const char *pp = P[(size_t)ri].c_str(), *ss = S[(size_t)ri].c_str();
        // <crypt.h> offers the object's own input and setting fields as storage for the arguments: a caller that
        // keeps them there puts them in once and then hashes repeatedly, so they are copied only when the object
        // holds another request (a library that touches those fields shows up at the second call)
        if ((arg & 1) && P[(size_t)ri].size() < LEN_INPUT && S[(size_t)ri].size() < LEN_SETTING) {
          if (ob.held != ri) {
            memcpy(ob.p + OFF_INPUT, pp, P[(size_t)ri].size() + 1);
            memcpy(ob.p + OFF_SETTING, ss, S[(size_t)ri].size() + 1);
            ob.held = ri;
          }
          pp = ob.p + OFF_INPUT;
          ss = ob.p + OFF_SETTING;
          in_object++;
        }
        v = expect_hash(op, ri, op == 1 ? L.crypt_r(pp, ss, ob.p) : L.crypt_rn(pp, ss, ob.p, (int)DS), op == 1);
        ob.deskey = false;
        break;
      }
      case 3: v = expect_hash(op, ri, L.crypt_ra(P[(size_t)ri].c_str(), S[(size_t)ri].c_str(), &ra, &ras), false); break;
      case 4: {
        // crypt_gensalt's static result handed straight to crypt
        static const char *PF[] = {"$1$", "$5$", "", "_", "$2b$", "$y$", "$3$", "$sha1"};
        const char *pf = PF[arg % 8];
        char rb[32];
        for (int k = 0; k < 32; k++) rb[k] = (char)(arg * 31 + k * 7);
        unsigned long cnt = (arg % 8 == 4) ? 4 : (arg % 8 == 5) ? 1 : (arg % 8 == 1) ? 1000 : (arg % 8 == 7) ? 100 : 0;
        char *s = L.crypt_gensalt(pf, cnt, rb, 32);
        if (!s) { v = std::string("C07 crypt_gensalt(\"") + pf + "\") failed"; break; }
        Bytes scopy = s;
        char *r = L.crypt(P[(size_t)ri].c_str(), s);
        Bytes got = r ? r : "(null)";
        Bytes m = eval_fresh(P[(size_t)ri], scopy);
        nchecked++;
        bool gfail = !r || got[0] == '*';
        if (m[0] == '!' ? !gfail : (gfail || got != m.substr(1))) v = "C07 crypt(P, crypt_gensalt(...)) with the static result \"" + vis(scopy, 60) + "\" gives \"" + vis(got, 100) + "\", a fresh evaluation on a copy gives \"" + vis(m, 100) + "\"";
        break;
      }
      case 5: {
        char out[192], rb[64];
        memset(rb, arg, sizeof rb);
        (void)L.crypt_gensalt_rn(arg & 1 ? "$6$" : "$zz$", 0, rb, 64, out, sizeof out);
        break;
      }
      case 6: {
        char vec[64];
        for (int k = 0; k < 8; k++) skeyb[k] = (unsigned char)(arg * 17 + k * 29 + ri);
        to_vec(skeyb, vec);
        L.setkey(vec);
        skey = true;
        break;
      }
      case 7: {
        if (!skey) break;
        unsigned char blk[8], got[8], want[8];
        for (int k = 0; k < 8; k++) blk[k] = (unsigned char)(arg * 13 + k * 31);
        char vec[64];
        to_vec(blk, vec);
        L.encrypt(vec, arg & 1);
        from_vec(vec, got);
        ref::des::crypt_bytes(skeyb, 0, 1, blk, want, arg & 1);
        nchecked++;
        if (memcmp(got, want, 8)) v = "C07 encrypt() after interleaved calls no longer uses the key of the last setkey(): got " + hex(Bytes((char *)got, 8)) + " want " + hex(Bytes((char *)want, 8)) + " [after: " + trace + "]";
        break;
      }
      case 8: {
        char vec[64];
        for (int k = 0; k < 8; k++) ob.key[k] = (unsigned char)(arg * 19 + k * 23 + o);
        to_vec(ob.key, vec);
        L.setkey_r(vec, ob.p);
        ob.deskey = true;
        break;
      }
      case 9: {
        if (!ob.deskey) break;
        unsigned char blk[8], got[8], want[8];
        for (int k = 0; k < 8; k++) blk[k] = (unsigned char)(arg * 11 + k * 37);
        char vec[64];
        to_vec(blk, vec);
        L.encrypt_r(vec, arg & 1, ob.p);
        from_vec(vec, got);
        ref::des::crypt_bytes(ob.key, 0, 1, blk, want, arg & 1);
        nchecked++;
        if (memcmp(got, want, 8)) v = "C07 encrypt_r() result differs from DES under the key of the last setkey_r() on that object [after: " + trace + "]";
        break;
      }
      default: (void)L.crypt_checksalt(S[(size_t)ri].c_str()); break;
    }
    prev_kind = op;
    if (trace.size() < 400) trace += std::string(OPN[op]) + (op <= 3 ? "#" + std::to_string(ri) : "") + " ";
  }
  for (int i = 0; i < nobj; i++) free(objs[i].raw);
  free(ra);
  if (!v.empty()) return v;
  bool repeated = false;
  for (auto &kv : preds)
    if (kv.second.size() >= 2) repeated = true;
  if (repeated && odd_object) {
    if (ctx.st.nontriv(fnv(c.serialize())) && ctx.st.samples.size() < ctx.st.sample_cap) ctx.st.sample("history (" + std::to_string(nreq) + " requests, " + std::to_string(nobj) + " objects, " + std::to_string(nchecked) + " checked results): " + trace.substr(0, 300));
    ctx.st.cls("c07/nontrivial");
  } else
    ctx.st.cls("c07/other");
  if (in_object >= 2) ctx.st.cls("c07/arguments-in-object-fields");
  for (int i = 0; i < nreq; i++) ctx.st.cls(std::string("c07-method/") + METHOD_NAME[classify_tag(S[(size_t)i])] + (M[(size_t)i][0] == '!' ? "/failing" : "/ok"));
  return "";
}

#ifndef VF_NO_RC
static int c07_run(Ctx &ctx) {
  return run_rc_generic(ctx, "C07", c07_check, [&]() {
    KV c;
    int nreq = (int)g::pick(2, 7);
    c.seti("nreq", nreq);
    g::SOpts o;
    o.sha1_salt_max = 330;  // the output field doubles as a work area for some methods: long salts reach far into it
    for (int i = 0; i < nreq; i++) {
      int k = g::wpick({7, 1, 1, 1});
      Bytes s = k == 0 ? g::valid_setting(g::any_method(), o).s : k == 1 ? Bytes("*0") : k == 2 ? g::mutate(g::valid_setting(g::any_method(), o).s, 1, true) : Bytes("$zz$x");
      c.set("s" + std::to_string(i), s);
      // all length classes: bigcrypt's block loop ends differently at <= 128 and > 128 characters
      c.set("p" + std::to_string(i), k == 3 ? g::phrase_of_len(520) : g::coin(1, 3) ? g::phrase(511) : g::phrase(100));
    }
    int nobj = (int)g::pick(1, 4);
    Bytes oi;
    for (int i = 0; i < nobj; i++) oi.push_back((char)((g::pick(0, 15)) | (g::pick(0, 3) << 4)));
    c.set("objinit", oi);
    size_t nops = (size_t)g::pick(5, 60);
    Bytes ops;
    for (size_t i = 0; i < nops; i++) {
      ops.push_back((char)g::wpick({4, 4, 4, 3, 2, 1, 1, 2, 1, 2, 1}));
      ops.push_back((char)g::pick(0, 3));
      ops.push_back((char)g::pick(0, 9));
      ops.push_back((char)g::pick(0, 255));
    }
    c.set("ops", ops);
    return c;
  });
}
#else
#define c07_run nullptr
#endif

static Prop PROPS[] = {
  {"C07", c07_check, c07_run, nullptr},
};

int main(int argc, char **argv) { return vf_main(argc, argv, PROPS, sizeof PROPS / sizeof *PROPS); }
